"""C01 - decoding never returns anything but the original object.
MC_Codec: exhaustive small model with the real rank oracle (+ liveness under a fair channel: MC_Codec_live.cfg);
MC_Decode: "full rank => Gauss-Jordan on the received system returns the source octets" on the spec's own arithmetic.  Trace_Codec: every call of the real Decoder in
generated histories (drops, duplicates, reordering, block interleaving, clone, continuation after completion,
both APIs) is validated as a step of spec/Codec.tla, result bytes compared with the original."""
import vlib
from props import codec_common as cc

QUICK_CFGS = ['1:1:1:1:1', '5:4:1:1:1', '20:4:1:1:1', '37:3:2:1:1', '100:8:3:2:4', '64:8:1:2:4', '120:12:2:3:4',
              '255:40:1:5:8', '1000:40:1:1:8', '200:8:4:2:2', '77:7:3:1:1', '2:1:2:1:1', '26:1:1:1:1', '300:12:1:1:4',
              '640:16:4:2:8', '333:16:2:1:16', '49:1:1:1:1', '90:2:1:2:1', '410:10:2:5:2', '17:1:4:1:1',
              # sub-symbol sizes that differ (N does not divide T/Al), with N | T and without
              '480:48:1:4:8', '290:24:2:4:4', '210:20:1:3:4', '77:14:2:4:2']
QUICK_LEARNED = ['16000:8:1:1:8', '3001:3:2:1:1']


def cfg_jobs(cfgs, subsets, perms, per_job, name, extra=None):
    jobs = []
    for i in range(0, len(cfgs), per_job):
        jobs.append((name, ['codec-object', '--configs', ';'.join(cfgs[i:i + per_job]), '--subsets', subsets, '--perms', perms] + (extra or [])))
    return jobs


def thorough_cfgs(seed):
    import random
    rnd = random.Random(seed)
    cfgs = list(QUICK_CFGS)
    for _ in range(140):
        al = rnd.choice([1, 1, 2, 4, 8])
        t = al * rnd.randint(1, 8)
        z = rnd.choice([1, 1, 2, 3, 4])
        n = rnd.randint(1, max(1, t // al))
        kt = rnd.randint(z, z * rnd.choice([5, 12, 26, 49, 60, 101]))
        f = max(1, kt * t - rnd.randint(0, t - 1))
        cfgs.append('%d:%d:%d:%d:%d' % (f, t, z, n, al))
    return cfgs


def run(chk):
    exe = vlib.build_harness('release')
    res = vlib.tlc('MC_Codec', cfg='MC_Codec.cfg' if chk.quick else 'MC_Codec_thorough.cfg', workers=8, xss='256m',
                   timeout=3000, tag='MC_Codec', xmx='4g' if chk.quick else '12g')
    vlib.expect_mc_ok(chk, res, 'MC_Codec')
    # liveness under a fair channel + the decode theorem on the specification's own arithmetic (run side by side)
    rs = vlib.tlc_parallel([dict(module='MC_Codec', cfg='MC_Codec_live.cfg', workers=4, xss='256m', timeout=3000, tag='MC_Codec[live]'),
                            dict(module='MC_Decode', cfg='MC_Decode.cfg' if chk.quick else 'MC_Decode_thorough.cfg', workers=1,
                                 xss='256m', timeout=3000, tag='MC_Decode')], max_parallel=2)
    vlib.expect_mc_ok(chk, rs[0], 'MC_Codec_live')
    vlib.expect_mc_ok(chk, rs[1], 'MC_Decode')
    okm = cc.replay_model_behaviours(chk, exe, 40 if chk.quick else 600)
    if chk.quick:
        jobs = cfg_jobs(QUICK_CFGS, 3, 3, 2, 'exact')
        jobs += cfg_jobs(QUICK_LEARNED, 2, 2, 1, 'learned')
        rankmax = 60
    else:
        jobs = cfg_jobs(thorough_cfgs(chk.seed), 6, 4, 4, 'exact')
        jobs += cfg_jobs(QUICK_LEARNED + ['40000:16:2:2:8', '70000:64:1:4:8'], 3, 3, 1, 'learned')
        jobs += cfg_jobs(QUICK_CFGS, 3, 2, 5, 'dense', ['--sparse', 4294967295])
        jobs += cfg_jobs(QUICK_CFGS, 3, 2, 5, 'sparse', ['--sparse', 0])
        rankmax = 110
    ok, st = cc.run_traces(chk, exe, jobs, rankmax, nproc=14, timeout=6000)
    if not chk.quick:
        exe2 = vlib.build_harness('checked')
        ok2, st2 = cc.run_traces(chk, exe2, cfg_jobs(QUICK_CFGS, 2, 2, 5, 'checked'), 60, nproc=14, timeout=6000)
        for k, v in st2.items():
            st[k] = st.get(k, 0) + v
    chk.cov['evaluations'] = st['deliver']
    chk.cov['distinct_nontrivial'] = st['histories'] if (ok and okm) else 0
    chk.cov['stats'] = st
    chk.cov['rule'] = ('per configuration (F,T,Z,N,Al): several packet multisets on the decoding threshold (all source / '
                       '1-3 source symbols dropped + K..K+2 total / repair only / too few / random), each delivered in several '
                       'histories (interleaved, block-wise, reversed; ~20%% duplicates; Decoder::decode or add_new_packet+'
                       'get_result; clone at a random point continued in reverse order through the other API; 5 deliveries '
                       'after the end; finally every source packet). evaluations = decoder calls validated; '
                       'distinct_nontrivial = decoder instances (histories) whose every call was accepted by the spec. '
                       'Decodability by TLC rank computation for K\' <= %d, learned above.' % rankmax)
    chk.assumptions += ['packets are the encoder\'s (payload correctness is C04); Data known to both sides',
                        'outputs above 2 KiB are compared by the harness (equality flag) instead of byte-wise by TLC']
