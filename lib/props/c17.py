"""C17 - the shared encoding-plan cache is transparent and bounded under concurrency.
MC_PlanCache: all interleavings of 3 threads x 2 requests, Cap = 2, exhaustively.  spec -> impl: TLC prints every
interleaving of the critical sections of three concurrent requests against a cache pre-filled to 63 and to 64 plans;
each is forced on real threads through the yield hook and the cache contents after every critical section compared.
impl -> spec: free-running threads, critical sections logged under the mutex, validated by Trace_PlanCache."""
import json
import vlib


def property_conditions_hold(trace):
    """Trace_PlanCache rejected the trace: does it still satisfy the property-level conditions alone (capacity, map/queue
    consistency, plans under their own symbol count, transparent encoders)?"""
    r = vlib.tlc('Trace_PlanCacheProp', env={'TRACE': trace}, deque=True, timeout=3000, tag='Trace_PlanCacheProp')
    return r.ok


def run(chk):
    exe = vlib.build_harness('release')
    res = vlib.tlc('MC_PlanCache', workers=8, xss='64m', timeout=1800, tag='MC_PlanCache', coverage=not chk.quick)
    vlib.expect_mc_ok(chk, res, 'MC_PlanCache')
    # unbounded depth: the invariant is inductive (Apalache): base case, inductive step from an arbitrary state, and two
    # controls - a state with a full cache and two racing inserts satisfies the invariant (the step is not vacuous), and the
    # insert step without the second look-up does NOT preserve it
    import os
    mod = os.path.join(vlib.SPEC, 'apalache', 'PlanCacheInd.tla')
    runs = [('base', ['--cinit=ConstInit', '--init=Init', '--inv=IndInv', '--length=0'], 'NoError'),
            ('step', ['--cinit=ConstInit', '--init=IndInit', '--inv=IndInv', '--length=1'], 'NoError'),
            ('witness', ['--cinit=ConstInit', '--init=IndInit', '--inv=WitnessFullCache', '--length=0'], 'Error'),
            ('control', ['--cinit=ConstInit', '--init=IndInit', '--next=NextBuggy', '--inv=IndInv', '--length=1'], 'Error')]
    import concurrent.futures
    with concurrent.futures.ThreadPoolExecutor(max_workers=4) as ex:
        outs = list(ex.map(lambda r: vlib.apalache(mod, r[1]), runs))
    for (name, args, want), (got, txt) in zip(runs, outs):
        if got is None:
            raise vlib.ToolError('apalache gave no outcome on PlanCacheInd (%s): %s' % (name, txt[-300:]))
        if got != want:
            if name in ('base', 'step'):
                chk.violation('spec:PlanCacheInd:%s' % name, 'the plan-cache invariant is not inductive (%s)' % name, {'apalache_tail': txt.splitlines()[-40:]})
            else:
                raise vlib.ToolError('apalache control run %s: expected %s, got %s' % (name, want, got))
    chk.cov['apalache'] = {'module': 'spec/apalache/PlanCacheInd.tla', 'runs': [r[0] for r in runs],
                           'bounds': 'Threads = {1,2,3}, Cap in 1..4, caches of up to 4 keys, keys any integer >= 1; any number of steps (inductive)'}
    # schedules
    rs = vlib.tlc_parallel([dict(module='MC_PlanCache', cfg='MC_PlanCache_sched%d.cfg' % c, workers=3, xss='64m', timeout=1800,
                                 tag='MC_PlanCache[schedules prefill %d]' % c) for c in (63, 64)])
    scheds = []
    seen = set()
    for r, c in zip(rs, (63, 64)):
        if not vlib.expect_mc_ok(chk, r, 'MC_PlanCache_sched%d' % c):
            continue
        for l in r.out.splitlines():
            if l.startswith('"{'):
                d = json.loads(l)
                if d not in seen:
                    seen.add(d)
                    scheds.append(json.loads(d))
    ok = True
    if scheds:
        cin = vlib.workfile('c17_schedules.ndjson')
        cout = vlib.workfile('c17_results.ndjson')
        vlib.write_ndjson(cin, scheds)
        rc, out = vlib.run_drv(exe, ['plancache-replay', '--in', cin, '--out', cout], timeout=3000)
        if rc != 0:
            raise vlib.ToolError('plancache-replay failed: ' + out[-400:])
        vlib.log('[replay] forced schedules: ' + out.strip().splitlines()[-1])
        mism = vlib.read_ndjson(cout)
        # a condition of the property itself failed on an observed state -> violation; the execution merely left the
        # model's behaviours (another eviction order, another shape of a request) -> model deviation, reported, no alarm
        bad = [m for m in mism if m.get('property_level')]
        dev = [m for m in mism if not m.get('property_level')]
        for m in bad[:5]:
            order = ''.join('%d%s' % (s['t'], s['act'][0]) for s in m['case']['steps'])
            chk.violation('plancache-schedule:prefill=%d:keys=%s:%s' % (m['case']['prefill'], m['case']['keys'], order),
                          'forced interleaving disagrees with the specification: ' + '; '.join(m['mismatch'])[:500],
                          {'case': m['case'], 'got': m['got'], 'mismatch': m['mismatch']})
        for m in dev[:2]:
            order = ''.join('%d%s' % (s['t'], s['act'][0]) for s in m['case']['steps'])
            chk.deviation('plancache-schedule:prefill=%d:keys=%s:%s' % (m['case']['prefill'], m['case']['keys'], order),
                          'forced interleaving left the model (%d schedules): ' % len(dev) + '; '.join(m['mismatch'])[:400],
                          {'case': m['case'], 'got': m['got'], 'mismatch': m['mismatch']})
        ok = not bad
        chk.cov['traces_validated_against_impl'] += len(scheds) - len(mism)
        chk.sample({'prefill': scheds[0]['prefill'], 'keys': scheds[0]['keys'], 'steps': [[s['t'], s['act'], s['key'], s['drop'], s['app']] for s in scheds[0]['steps']]})
    # free-running threads
    runs = 4 if chk.quick else 17
    traces = []
    nev = 0
    for i in range(runs):
        t = vlib.workfile('c17_log_%d.ndjson' % i)
        # the last run draws from sizes a lossy cache key would confuse (equal J, equal K', equal low byte)
        rc, out = vlib.run_drv(exe, ['plancache-log', '--out', t, '--seed', chk.seed + i, '--threads', 16, '--reqs', 40 if chk.quick else 150,
                                     '--sizes', 200 if i % 2 == 0 else 70] + (['--collide'] if i == runs - 1 else []), timeout=3000)
        if rc != 0:
            raise vlib.ToolError('plancache-log failed: ' + out[-400:])
        nev += int(out.strip().split('=')[-1])
        traces.append(t)
    results = vlib.tlc_parallel([dict(module='Trace_PlanCache', env={'TRACE': t}, deque=True, timeout=3000, tag='Trace_PlanCache[%d]' % i)
                                 for i, t in enumerate(traces)], max_parallel=12)
    for i, (t, r) in enumerate(zip(traces, results)):
        ok = vlib.judge_trace(chk, r, 'Trace_PlanCache', t, 'Trace_PlanCache[%d]' % i, advisory=property_conditions_hold,
                              key_of=lambda ev, mism: 'plancache-log:%s:key=%s' % (ev.get('kind', ev.get('ev')), ev.get('key')) if ev else None) and ok
    chk.cov['evaluations'] = len(scheds) + nev
    chk.cov['distinct_nontrivial'] = len(scheds) if ok else 0
    chk.cov['forced_schedules'] = len(scheds)
    chk.cov['free_running_events'] = nev
    chk.cov['rule'] = ('exhaustive: 3 threads x 2 requests x 3 keys, capacity 2 (all interleavings of lookup / generate / insert); '
                       'forced: every distinct order of the critical sections of 3 concurrent requests for every key assignment '
                       'from {two uncached sizes, one cached size} against a cache pre-filled with 63 and with 64 plans (insert '
                       'without / with eviction, insert races, hits), each executed on real threads gated before every lock '
                       'acquisition; after every critical section map, FIFO and the plans\' symbol counts are compared, and every '
                       'returned encoder with a cache-less one; free-running: 16 threads, up to 200 sizes, logged under the mutex; '
                       'distinct_nontrivial = distinct forced schedules')
    chk.assumptions += ['the yield hook sits immediately before each lock(); the event hook runs while the mutex is held',
                        'interleavings inside plan generation are irrelevant (no shared state is touched there)',
                        'the eviction order (FIFO) and the three-section shape of a request are part of the model, not of the property: leaving them while capacity, map/queue consistency, plan identity and transparency hold is reported as MODEL-DEVIATION, not as a violation']
