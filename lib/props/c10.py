"""C10 - octet arithmetic is GF(256) of RFC 6330 5.7.
(1) MC_GF256: the spec's field satisfies the field axioms, exhaustively over all 2^24 triples.
(2) Trace_GF256: every cell of the implementation's scalar ops and derived tables equals the spec's."""
import vlib, re


def run(chk):
    exe = vlib.build_harness('release')
    res = vlib.tlc('MC_GF256', workers=8, xss='64m', xmx='8g', timeout=900, tag='MC_GF256')
    vlib.expect_mc_ok(chk, res, 'MC_GF256')
    trace = vlib.workfile('c10_gf256.ndjson')
    rc, out = vlib.run_drv(exe, ['gf256', '--out', trace, '--tier', chk.tier])
    if rc != 0:
        # the dump itself only calls total functions on valid operands: a crash here is a finding of C10
        chk.violation('gf256-dump-crash', 'scalar field operations crashed: ' + out[-300:], {'output': out[-2000:]})
        return
    evs = 0
    cells = 0
    with open(trace) as f:
        for line in f:
            evs += 1
            cells += line.count(',')
    ok = vlib.validate_trace(chk, 'Trace_GF256', trace, key_of=lambda ev, mism: 'gf256:' + (mism[0] if mism else 'row'))
    chk.cov['evaluations'] = cells
    chk.cov['distinct_nontrivial'] = 256 * 256 if ok else 0
    chk.cov['exhaustive'] = True
    chk.cov['rule'] = ('exhaustive: all 256 rows x 256 columns of *, /, +, -, +=, fma (several accumulators), OCTET_MUL, '
                       'both nibble tables (32 lanes), OCT_EXP (510), OCT_LOG, alpha(0..255); distinct_nontrivial = '
                       'operand pairs (a,b) compared cell by cell with the spec field; spec field axioms checked over '
                       'all 2^24 triples by MC_GF256')
    import json
    with open(trace) as f:
        for line in f:
            e = json.loads(line)
            if e.get('ev') == 'row' and e['a'] in (3, 142):
                chk.sample({'ev': 'row', 'a': e['a'], 'mul[0..11]': e['mul'][:12], 'div[1..12]': e['div'][:12],
                            'lo': e['lo'][:16], 'hi': e['hi'][:16]})
    chk.sample({'trace_events': evs, 'cells': cells})
    chk.assumptions += ['the defining polynomial 0x11D and generator 2 are those of RFC 6330 5.7 (spec/GF256.tla)',
                        'TLC evaluates the TLA+ operators correctly']
