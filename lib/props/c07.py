"""C07 - results depend only on the inputs, not on build, CPU kernels, back-end or caching."""
import vlib, json, re


def key_of(ev, mism):
    if ev is None:
        return None
    return 'determinism:%s:%s' % (ev.get('sid'), ev.get('cfg'))


def run(chk):
    exe = vlib.build_harness('release')
    exe_chk = vlib.build_harness('checked')
    exe_nostd = vlib.build_harness('release', nostd=True)
    parts = []
    for name, e, args in (('release', exe, ['scenarios', '--profile', 'release', '--tier', chk.tier]),
                          ('checked', exe_chk, ['scenarios', '--profile', 'checked', '--tier', chk.tier]),
                          ('nostd', exe_nostd, ['thorough'] if not chk.quick else [])):
        t = vlib.workfile('c07_%s.ndjson' % name)
        rc, out = vlib.run_drv(e, args + ['--out', t, '--seed', chk.seed], timeout=3000)
        if rc != 0:
            chk.violation('scenario-driver-crash:' + name, 'scenario driver died under %s: %s' % (name, out[-300:]), {'output': out[-2000:]})
            return
        parts.append(t)
    # one trace: all configurations back to back (plain concatenation, nothing is interpreted here)
    trace = vlib.workfile('c07_all.ndjson')
    cfgs = set()
    sids = set()
    skipped = []
    n = 0
    with open(trace, 'w') as w:
        w.write(json.dumps({'ev': 'meta', 'property': 'C07', 'seed': chk.seed}) + '\n')
        for p in parts:
            for line in open(p):
                e = json.loads(line)
                if e['ev'] in ('meta', 'end'):
                    continue
                if e['ev'] == 'skipped':
                    skipped.append('%s/%s' % (e['profile'], e['level']))
                if e['ev'] == 'scn':
                    cfgs.add(e['cfg'])
                    sids.add(e['sid'])
                    n += 1
                    if len(chk.cov['samples']) < 3 and e['sid'].startswith('dec'):
                        chk.sample({'cfg': e['cfg'], 'sid': e['sid'], 'out': {k: (v[:8] if isinstance(v, list) else v) for k, v in e['out'].items()}})
                w.write(line)
        w.write('{"ev":"end"}\n')
    ok = vlib.validate_trace(chk, 'Trace_Determinism', trace, key_of=key_of, timeout=3000, nruns=len(cfgs), resume=3)
    chk.cov['evaluations'] = n
    chk.cov['distinct_nontrivial'] = len(sids) if ok else 0
    chk.cov['configurations'] = len(cfgs)
    chk.cov['skipped_unsupported'] = skipped
    chk.cov['rule'] = ('scenarios: encode (K,T) for 14 (22) block shapes incl. odd T, five fixed decode sets per block (one source '
                       'symbol dropped, half dropped +2, repair only +1, too few, far ESIs), five whole objects incl. Z>1, N>1; '
                       'configurations: {release, debug-assertions+overflow-checks} x {auto, AVX-512, AVX2, SSSE3, portable} x '
                       '{new, explicit plan, threshold 0/250/inf x direct/plan} for encoding and x threshold {0,250,inf} for decoding, '
                       'plus the no_std build; evaluations = (configuration, scenario) outcomes compared by TLC; '
                       'distinct_nontrivial = distinct scenarios')
    chk.assumptions += ['digests (FNV-1a over serialized packets) stand in for outputs above 1500 bytes',
                        'the common outcome is validated against the RFC oracle on the default configuration by C04/C01',
                        'NEON not available on this host']
