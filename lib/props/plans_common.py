"""Recorded operation vectors of the real solver validated as behaviours of spec/Elim.tla (Trace_Plan)."""
import json
import vlib


def key_of(ev, mism):
    if ev is None:
        return None
    return 'plan:K=%s:route=%s:isis=%s' % (ev.get('k'), ev.get('route'), len(ev.get('isis', [])))


def run_plans(chk, exe, groups, decodes, prefix, timeout=6000, nproc=12):
    """groups: list of lists of K; one driver run + one TLC process per group."""
    traces = []
    for i, g in enumerate(groups):
        t = vlib.workfile('%s_plans_%d.ndjson' % (prefix, i))
        rc, out = vlib.run_drv(exe, ['plans', '--jobs', ';'.join(map(str, g)), '--decodes', decodes, '--seed', chk.seed + 7 * i,
                                     '--out', t, '--property', chk.prop], timeout=timeout)
        if rc != 0:
            raise vlib.ToolError('plans driver failed: ' + out[-300:])
        traces.append(t)
    results = vlib.tlc_parallel([dict(module='Trace_Plan', env={'TRACE': t}, deque=True, timeout=timeout, xmx='6g', xss='512m',
                                      tag='Trace_Plan[%s %d]' % (prefix, i)) for i, t in enumerate(traces)], max_parallel=nproc)
    ok = True
    nplans = nops = 0
    routes = {}
    for i, (t, r) in enumerate(zip(traces, results)):
        n = 0
        for line in open(t):
            e = json.loads(line)
            if e['ev'] == 'plan':
                n += 1
                nops += len(e['ops'])
                routes[e['route']] = routes.get(e['route'], 0) + 1
                if len(chk.cov['samples']) < 5 and e['route'].startswith('decode-gf2'):
                    chk.sample({'ev': 'plan', 'k': e['k'], 'route': e['route'], 'isis': e['isis'][:12], 'ops[:4]': e['ops'][:4], 'nops': len(e['ops'])}, limit=5)
        nplans += n
        ok = vlib.judge_trace(chk, r, 'Trace_Plan', t, 'Trace_Plan[%s %d]' % (prefix, i), nruns=n, key_of=key_of) and ok
    chk.cov['solver_operation_vectors'] = {'systems': nplans, 'row_operations': nops, 'by_route': routes}
    return ok
