"""C11 - bulk kernels equal element-wise field operations on every code path.
MC_Kernels: exhaustive small model of Kernels.tla.  Trace_Kernels: every kernel variant this CPU supports, called on
its own through the hook, and the four public dispatchers, validated call by call."""
import json, os
import vlib

KINDS = ['add', 'mul', 'fma', 'fmab']
LEVELS = ['avx512', 'avx2', 'ssse3', 'portable', 'neon', 'dispatch']


def key_of(ev, mism):
    if ev is None:
        return None
    return 'kernel:%s:%s:len=%s:off=%s:c=%s' % (ev.get('k'), ev.get('level'), ev.get('len'), ev.get('off'), ev.get('c'))


def kernel_traces(chk, exe, prefix, extra_args=None, env=None, profile='release'):
    """Runs the kernel driver for every (kind, level); returns [(name, trace, rc, out)], skipped levels listed."""
    out = []
    skipped = []
    i = 0
    for kind in KINDS:
        for level in LEVELS:
            i += 1
            trace = vlib.workfile('%s_%s_%s.ndjson' % (prefix, kind, level))
            if os.path.exists(trace):
                os.remove(trace)
            rc, txt = vlib.run_drv(exe, ['kernels', '--kind', kind, '--level', level, '--out', trace, '--seed', chk.seed + i,
                                         '--tier', chk.tier, '--profile', profile, '--property', chk.prop] + (extra_args or []), env=env)
            if rc == 0 and 'unsupported' in txt:
                skipped.append('%s/%s' % (kind, level))
                continue
            out.append(('%s/%s' % (kind, level), trace, rc, txt))
    return out, skipped


def run(chk):
    exe = vlib.build_harness('release')
    res = vlib.tlc('MC_Kernels', workers=8, xss='64m', timeout=1800, tag='MC_Kernels')
    vlib.expect_mc_ok(chk, res, 'MC_Kernels')
    runs, skipped = kernel_traces(chk, exe, 'c11')
    # long operands (1000..16391 octets, beyond any internal block size) on a second, larger arena
    runs_long, _ = kernel_traces(chk, exe, 'c11long', extra_args=['--long'])
    runs += [('long:' + n, t, rc, o) for n, t, rc, o in runs_long]
    if not chk.quick:
        exe2 = vlib.build_harness('checked')
        runs2, _ = kernel_traces(chk, exe2, 'c11chk', profile='checked')
        runs += [('checked:' + n, t, rc, o) for n, t, rc, o in runs2]
    good = []
    for name, trace, rc, txt in runs:
        if rc != 0:
            chk.violation('kernel-crash:' + name, 'kernel driver died (exit %s) in %s: %s' % (rc, name, txt[-200:]), {'name': name, 'output': txt[-2000:]})
        else:
            good.append((name, trace))
    results = vlib.tlc_parallel([dict(module='Trace_Kernels', env={'TRACE': t}, deque=True, timeout=3000, xmx='3g',
                                      tag='Trace_Kernels[%s]' % n) for n, t in good], max_parallel=15)
    ok = True
    nev = 0
    for (n, t), r in zip(good, results):
        ok = vlib.judge_trace(chk, r, 'Trace_Kernels', t, 'Trace_Kernels[%s]' % n, key_of=key_of) and ok
        nev += max(0, r.distinct - 4)
    with open(good[0][1]) as f:
        for i, line in enumerate(f):
            if i in (2, 3):
                e = json.loads(line)
                e['src'] = e.get('src', [])[:8]
                e['win'] = e['win'][:12]
                chk.sample(e)
            if i > 3:
                break
    chk.cov['evaluations'] = nev
    chk.cov['distinct_nontrivial'] = nev if ok else 0
    chk.cov['variants'] = [n for n, _ in good]
    chk.cov['skipped_unsupported'] = skipped
    chk.cov['rule'] = ('per (kernel, level): lengths 0..132 and 160..300 x start offsets {0,1,7,8,31,63} (thorough: all 64) x 3 random '
                       'scalars, plus all 256 scalars at 15 lengths around the vector widths; contents random / 0x00 / 0xFF / one-hot; '
                       'garbage in the padding bits of packed vectors; operations chained on one 64-byte-aligned arena with canary '
                       'margins; window +-8 bytes compared after every call, whole arena every 25 calls; each call is distinct '
                       '(kernel, level, length, offset, scalar, contents)')
    chk.assumptions += ['NEON kernels are not compiled on this host (x86-64): not covered',
                        'scalars 0/1 that the API forbids via debug_assert are exercised in the release profile only']
