"""Shared by C01 / C02 / C08 / C03: run the codec driver, validate with Trace_Codec, collect statistics."""
import json, os
import vlib


def key_of(ev, mism):
    if ev is None:
        return None
    what = 'mismatch'
    if mism:
        import re
        m = re.search(r'<<"MISMATCH", <<"([^"]+)"', mism[0])
        if m:
            what = m.group(1)[:60].replace(' ', '_')
    return 'codec:%s:pk=%s:%s' % (ev.get('api', ev.get('ev')), json.dumps(ev.get('pk'))[:80], what)


def trace_stats(path):
    """Counts used for the evidence: calls, answers, threshold decisions (>= K distinct symbols, not all source)."""
    st = {'events': 0, 'deliver': 0, 'some': 0, 'none': 0, 'histories': 0, 'cfgs': 0, 'threshold_none': 0,
          'batches': 0, 'dups': 0, 'clones': 0}
    ks = []
    recv = {}
    for line in open(path):
        e = json.loads(line)
        st['events'] += 1
        ev = e.get('ev')
        if ev == 'cfg':
            st['cfgs'] += 1
            ks = e['ks']
            recv = {}
        elif ev == 'new':
            st['histories'] += 1
            recv[e['dec']] = {}
        elif ev == 'clone':
            st['clones'] += 1
            recv[e['to']] = {b: set(s) for b, s in recv[e['dec']].items()}
        elif ev == 'deliver':
            st['deliver'] += 1
            b = e['pk'][0][0]
            s = recv[e['dec']].setdefault(b, set())
            before = len(s)
            for p in e['pk']:
                s.add(p[1])
            if len(s) == before:
                st['dups'] += 1
            if len(e['pk']) > 1:
                st['batches'] += 1
            if e['res'] == 'some':
                st['some'] += 1
            elif e['res'] == 'none':
                st['none'] += 1
                k = ks[b]
                if len(s) >= k and e.get('api') == 'block':
                    st['threshold_none'] += 1
    return st


def run_traces(chk, exe, jobs, rankmax, nproc=12, timeout=3000, xmx='4g'):
    """jobs: list of (name, drv_args). One trace + one TLC process per job."""
    traces = []
    for i, (name, args) in enumerate(jobs):
        trace = vlib.workfile('%s_%s_%d.ndjson' % (chk.prop.lower(), name, i))
        rc, out = vlib.run_drv(exe, args + ['--out', trace, '--seed', chk.seed + 17 * i, '--property', chk.prop], timeout=timeout)
        if rc != 0:
            raise vlib.ToolError('codec driver failed: ' + out[-500:])
        traces.append((name, trace))
    results = vlib.tlc_parallel([dict(module='Trace_Codec', env={'TRACE': t, 'RANKMAX': rankmax}, deque=True, timeout=timeout,
                                      xmx=xmx, xss='512m', tag='Trace_Codec[%s]' % n) for n, t in traces], max_parallel=nproc)
    tot = {}
    ok = True
    for (n, t), r in zip(traces, results):
        st = trace_stats(t)
        ok = vlib.judge_trace(chk, r, 'Trace_Codec', t, 'Trace_Codec[%s]' % n, nruns=st['histories'], key_of=key_of) and ok
        for k, v in st.items():
            tot[k] = tot.get(k, 0) + v
    # a sample: first few events of the first trace
    with open(traces[0][1]) as f:
        lines = f.readlines()
    for l in lines[1:6]:
        e = json.loads(l)
        if 'data' in e:
            e['data'] = e['data'][:8] + ['...']
        if 'out' in e:
            e['out'] = e['out'][:8] + ['...']
        chk.sample(e, limit=5)
    return ok, tot


def replay_model_behaviours(chk, exe, num, nproc=4):
    """spec -> impl: behaviours of MC_Codec (simulation mode, history printed) replayed on real decoders."""
    rs = vlib.tlc_parallel([dict(module='MC_Codec', cfg='MC_Codec_sim.cfg', workers=1, xss='256m', timeout=3000, simulate='num=%d' % num,
                                 depth=15, extra=['-seed', str(chk.seed + 31 * i)], tag='MC_Codec[simulate %d]' % i) for i in range(nproc)])
    seen = set()
    cases = []
    for i, r in enumerate(rs):
        if r.invariant or r.error:
            vlib.expect_mc_ok(chk, r, 'MC_Codec_sim%d' % i)
            continue
        for l in r.out.splitlines():
            if l.startswith('"{'):
                d = json.loads(l)
                if d not in seen:
                    seen.add(d)
                    cases.append(json.loads(d))
    if not cases:
        raise vlib.ToolError('MC_Codec simulation emitted no behaviours')
    cin = vlib.workfile('%s_model_behaviours.ndjson' % chk.prop.lower())
    cout = vlib.workfile('%s_model_results.ndjson' % chk.prop.lower())
    vlib.write_ndjson(cin, cases)
    rc, out = vlib.run_drv(exe, ['codec-replay', '--in', cin, '--out', cout])
    if rc != 0:
        raise vlib.ToolError('codec-replay failed: ' + out[-300:])
    vlib.log('[replay] model behaviours: ' + out.strip().splitlines()[-1])
    mism = vlib.read_ndjson(cout)
    for m in mism[:4]:
        steps = m['case']['steps']
        key = 'codec-replay:' + ','.join('%s%s.%s' % (s.get('dec'), s.get('sbn', 'c'), s.get('esi', '')) for s in steps)[:120]
        chk.violation(key, 'TLC-generated decoder behaviour not reproduced by the real decoder: ' + '; '.join(m['mismatch'])[:400],
                      {'case': m['case'], 'mismatch': m['mismatch'], 'kind': 'spec->impl replay'})
    chk.cov['traces_validated_against_impl'] += len(cases) - len(mism)
    chk.cov['model_behaviours_replayed'] = len(cases)
    return not mism
