"""Shared by C04 and C06: build encoder blocks by the harness, validate with Trace_Enc."""
import json, os, re
import vlib

TABLE_K = None


def table_kprimes():
    global TABLE_K
    if TABLE_K is None:
        txt = open(os.path.join(vlib.SPEC, 'Rfc6330Tables.tla')).read()
        m = re.search(r'Table2 == <<(.*)>>', txt)
        TABLE_K = [int(x.split(',')[0]) for x in re.findall(r'<<([\d,]+)>>', m.group(1))]
        assert len(TABLE_K) == 477
    return TABLE_K


def kprime_of(k):
    for kp in table_kprimes():
        if kp >= k:
            return kp
    raise ValueError(k)


def cost(job):
    k, t, route, mode = job
    kp = kprime_of(k)
    if mode == 'full':
        return t * (0.00002 * kp ** 3 + 0.2)
    if mode == 'light':
        return t * (kp / 3000.0 + 0.05)
    return t * (kp / 2000.0 + 0.2)


def chunk_jobs(jobs, nchunks, group_key=lambda j: (j[0], j[1])):
    """Greedy balanced partition; jobs with the same (K,T) stay together (RoutesAgree)."""
    groups = {}
    for j in jobs:
        groups.setdefault(group_key(j), []).append(j)
    items = sorted(groups.values(), key=lambda g: -sum(cost(j) for j in g))
    chunks = [[] for _ in range(nchunks)]
    loads = [0.0] * nchunks
    for g in items:
        i = loads.index(min(loads))
        chunks[i].extend(g)
        loads[i] += sum(cost(j) for j in g)
    return [c for c in chunks if c]


def key_of(ev, mism):
    if ev is None:
        return None
    what = 'mismatch'
    if mism:
        m = re.search(r'<<"MISMATCH", <<"([^"]+)"', mism[0])
        if m:
            what = m.group(1).replace(' ', '_')
    return 'enc:K=%s:T=%s:route=%s:%s' % (ev.get('k'), ev.get('t'), ev.get('route'), what)


def run_blocks(chk, exe, jobs, prefix, nrep=13, nrand=3, nproc=12, timeout=3000, profile_env=None):
    chunks = chunk_jobs(jobs, nproc)
    tl = []
    for i, ch in enumerate(chunks):
        trace = vlib.workfile('%s_%d.ndjson' % (prefix, i))
        spec = ';'.join('%d:%d:%s:%s' % j for j in ch)
        rc, out = vlib.run_drv(exe, ['enc', '--out', trace, '--seed', chk.seed + i, '--jobs', spec,
                                      '--nrep', nrep, '--nrand', nrand, '--property', chk.prop], timeout=timeout)
        if rc != 0:
            raise vlib.ToolError('enc driver failed: ' + out[-500:])
        tl.append(trace)
    big = max(kprime_of(j[0]) for j in jobs)
    xss = '1g' if big > 3000 else '256m'
    results = vlib.tlc_parallel([dict(module='Trace_Enc', workers=1, timeout=timeout, env={'TRACE': t}, deque=True,
                                      xss=xss, xmx='6g' if big > 20000 else '3g', tag='Trace_Enc[%d]' % i)
                                 for i, t in enumerate(tl)], max_parallel=nproc)
    allok = True
    for i, (res, t) in enumerate(zip(results, tl)):
        ok = vlib.judge_trace(chk, res, 'Trace_Enc', t, 'Trace_Enc[%d]' % i, nruns=len(chunks[i]), key_of=key_of)
        allok = allok and ok
    # samples: first block event of the first trace, shortened
    try:
        with open(tl[0]) as f:
            for line in f:
                e = json.loads(line)
                if e.get('ev') == 'block':
                    chk.sample({'ev': 'block', 'k': e['k'], 't': e['t'], 'route': e['route'], 'mode': e['mode'],
                                'data[:8]': e.get('data', [])[:8], 'rep[:3]': e.get('rep', [])[:3],
                                'c[:4]': (e.get('c') or [])[:4]})
                    break
    except Exception:
        pass
    return allok
