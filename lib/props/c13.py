"""C13 - wire formats are the RFC 6330 layouts and round-trip losslessly."""
import vlib, json
from props import objcommon as oc


def key_case(m):
    c = m['case']
    return 'wire:%s:%s' % (c['what'], json.dumps({k: c[k] for k in sorted(c) if k not in ('kind', 'what', 'bytes', 'reser', 'payload')})[:120])


def key_ev(ev, mism):
    if ev is None:
        return None
    return 'wire:%s:%s' % (ev.get('what'), json.dumps(ev.get('buf') or [ev.get('sbn'), ev.get('esi'), ev.get('f')])[:100])


def run(chk):
    exe = vlib.build_harness('release')
    cases = oc.tlc_cases(chk, 'MC_Wire', 'MC_Wire', workers=4)
    ok = True
    if cases is not None:
        ok = oc.replay_cases(chk, exe, cases, 'c13', key_case)
        seen = set()
        for c in cases:
            if c['what'] not in seen:
                seen.add(c['what'])
                chk.sample(c)
    n = 6000 if chk.quick else 200000
    ok2 = True
    nchunks = 1 if chk.quick else 8
    for i in range(nchunks):
        trace = vlib.workfile('c13_log_%d.ndjson' % i)
        rc, out = vlib.run_drv(exe, ['objlog', '--what', 'wire', '--n', n // nchunks, '--seed', chk.seed + i, '--out', trace])
        if rc != 0:
            chk.violation('wire-log-crash', 'serialise/parse of random values crashed: ' + out[-300:], {'output': out[-2000:]})
            return
    res = vlib.tlc_parallel([dict(module='Trace_Obj', env={'TRACE': vlib.workfile('c13_log_%d.ndjson' % i)}, deque=True,
                                  tag='Trace_Obj[wire %d]' % i, timeout=3000) for i in range(nchunks)])
    for i, r in enumerate(res):
        ok2 = vlib.judge_trace(chk, r, 'Trace_Obj', vlib.workfile('c13_log_%d.ndjson' % i), 'Trace_Obj[wire %d]' % i, key_of=key_ev) and ok2
    ncases = len(cases or [])
    chk.cov['evaluations'] = ncases + n
    chk.cov['distinct_nontrivial'] = ncases if ok else 0
    chk.cov['rule'] = ('spec->impl: TLC enumerates payload IDs (6 SBN x boundary/single-bit/byte-sweep ESIs), 4- and 12-byte '
                       'buffers (every byte position through 0..255 on 3 backgrounds), constructor-valid OTIs at field extremes, '
                       'packets with payload lengths 0..70, each with expected bytes / parsed fields; RoundTrip invariant on the '
                       'spec; impl->spec: random values and random buffers validated by TLC; distinct_nontrivial = enumerated cases')
    chk.assumptions += ['layouts are byte-wise independent (justifies the byte-sweep enumeration of the 2^32 / 2^88 spaces)']
