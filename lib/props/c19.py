"""C19 - the configuration constructor enforces the limits.
spec -> impl: MC_Accept enumerates the boundary lattice (TLC computes where each limit lies) with the verdict of
Accept; the harness replays it on ObjectTransmissionInformation::new.  impl -> spec: random tuples logged and
validated by Trace_Obj."""
import vlib
from props import objcommon as oc


def key_case(m):
    c = m['case']
    return 'accept:F=%d:T=%d:Z=%d:Al=%d' % (oc.limbs_to_int(c['f']), c['t'], c['z'], c['al'])


def key_ev(ev, mism):
    if ev is None:
        return None
    return 'accept:F=%d:T=%d:Z=%d:Al=%d' % (oc.limbs_to_int(ev['f']), ev['t'], ev['z'], ev['al'])


def run(chk):
    exe = vlib.build_harness('release')
    cfg = 'MC_Accept.cfg' if chk.quick else 'MC_Accept_thorough.cfg'
    cases = oc.tlc_cases(chk, 'MC_Accept', 'MC_Accept', cfg=cfg)
    ok = True
    if cases is not None:
        ok = oc.replay_cases(chk, exe, cases, 'c19', key_case)
        for c in cases[:3]:
            chk.sample(c)
    n = 4000 if chk.quick else 60000
    trace = vlib.workfile('c19_log.ndjson')
    rc, out = vlib.run_drv(exe, ['objlog', '--what', 'accept', '--n', n, '--seed', chk.seed, '--out', trace])
    if rc != 0:
        raise vlib.ToolError('objlog failed: ' + out[-300:])
    ok2 = vlib.validate_trace(chk, 'Trace_Obj', trace, name='Trace_Obj[accept]', key_of=key_ev, resume=5, timeout=3000)
    ncases = len(cases or [])
    chk.cov['evaluations'] = ncases + n
    chk.cov['distinct_nontrivial'] = ncases if ok else 0
    chk.cov['rule'] = ('spec->impl: TLC enumerates (F,T,Z,N,Al) on the boundary lattice (F at 56403*Z*T -T/-1/0/+1/+T, the '
                       'errata-5548 maximum +-1, 2^32 +-1, k*2^32*T+c, 0, 1, 2^40-1) with the spec verdict, all replayed on '
                       'the real constructor incl. accessor echo; impl->spec: random tuples validated by TLC; '
                       'distinct_nontrivial = lattice cases replayed (all distinct, every one adjacent to a limit)')
    chk.assumptions += ['positive T, Z, Al as the property states; limits as documented in the constructor']
