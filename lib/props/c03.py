"""C03 - reception overhead (statistical; level exploration).
Random (K+h)-subsets decoded by the real decoder; every failure certified rank deficient by TLC (otherwise it is a
lost decode, i.e. also a C02 violation); failure frequencies checked against the advertised bounds by TLC."""
import json
import vlib


def sample_and_certify(chk, exe, ks, n0, n1, n2, prefix, nproc=12, timeout=6000, check_rates=True):
    trace = vlib.workfile(prefix + '_all.ndjson')
    rc, out = vlib.run_drv(exe, ['overhead', '--out', trace, '--seed', chk.seed, '--ks', ','.join(map(str, ks)),
                                 '--n0', n0, '--n1', n1, '--n2', n2, '--property', chk.prop], timeout=timeout)
    if rc != 0:
        raise vlib.ToolError('overhead driver failed: ' + out[-400:])
    evs = vlib.read_ndjson(trace)
    stats = [e for e in evs if e['ev'] == 'stat']
    # per-K certification traces (parallel TLC processes) + one summary trace for the rates
    jobs = []
    for k in ks:
        t = vlib.workfile('%s_k%d.ndjson' % (prefix, k))
        vlib.write_ndjson(t, [evs[0]] + [e for e in stats if e['k'] == k] + [{'ev': 'end'}])
        jobs.append((t, 'K=%d' % k))
    summ = vlib.workfile(prefix + '_rates.ndjson')
    vlib.write_ndjson(summ, [evs[0]] + [dict(e, fails=[]) for e in stats] + [{'ev': 'end'}])
    results = vlib.tlc_parallel([dict(module='Trace_Overhead', env={'TRACE': t}, deque=True, timeout=timeout, xmx='3g',
                                      tag='Trace_Overhead[%s]' % n) for t, n in jobs], max_parallel=nproc)

    def key_of(ev, mism):
        if mism:
            return 'overhead:' + mism[0][:160]
        return None
    ok = True
    for (t, n), r in zip(jobs, results):
        ok = vlib.judge_trace(chk, r, 'Trace_Overhead', t, 'Trace_Overhead[%s]' % n, key_of=key_of) and ok
    if check_rates:
        r = vlib.tlc('Trace_Overhead', env={'TRACE': summ}, deque=True, timeout=timeout, tag='Trace_Overhead[rates]')
        ok = vlib.judge_trace(chk, r, 'Trace_Overhead', summ, 'Trace_Overhead[rates]', key_of=key_of) and ok
    tot = {h: [sum(e['trials'] for e in stats if e['h'] == h), sum(e['nfails'] for e in stats if e['h'] == h)] for h in (0, 1, 2)}
    certified = sum(len(e['fails']) for e in stats)
    return ok, tot, certified, stats


def run(chk):
    exe = vlib.build_harness('release')
    if chk.quick:
        ks, n0, n1, n2 = [10, 12, 19, 26, 40], 100000, 1000000, 1000000
    else:
        ks, n0, n1, n2 = [10, 12, 19, 26, 33, 40, 49, 55, 62, 75, 88, 101], 1200000, 12000000, 12000000
    ok, tot, certified, stats = sample_and_certify(chk, exe, ks, n0, n1, n2, 'c03')
    if not chk.quick:
        # large-K leg: the largest number of HDPC symbols (H = 16, K >= 49979); one decode takes seconds, failing sets cannot be
        # certified by TLC at this size - the counts alone are judged (6-sigma rule of Trace_Overhead!SmallRateOk)
        trace = vlib.workfile('c03_large.ndjson')
        rc, out = vlib.run_drv(exe, ['overhead', '--out', trace, '--seed', chk.seed + 5, '--ks', '50511', '--n0', 1500, '--n1', 0, '--n2', 0,
                                     '--property', chk.prop], timeout=7000)
        if rc != 0:
            raise vlib.ToolError('overhead driver failed (large leg): ' + out[-400:])
        evs = vlib.read_ndjson(trace)
        wrong = [e for e in evs if e.get('ev') == 'stat' and e.get('wrong')]
        vlib.write_ndjson(trace, [dict(e, fails=[]) if e.get('ev') == 'stat' else e for e in evs])
        r = vlib.tlc('Trace_Overhead', env={'TRACE': trace}, deque=True, timeout=3000, tag='Trace_Overhead[large K]')
        ok = vlib.judge_trace(chk, r, 'Trace_Overhead', trace, 'Trace_Overhead[large K]', key_of=lambda ev, mism: 'overhead-large:' + (mism[0][:120] if mism else '')) and ok
        chk.cov['large_k_leg'] = {'k': 50511, 'trials': sum(e['trials'] for e in evs if e.get('ev') == 'stat'),
                                  'failures': sum(e['nfails'] for e in evs if e.get('ev') == 'stat')}
    chk.cov['evaluations'] = sum(v[0] for v in tot.values())
    chk.cov['distinct_nontrivial'] = certified if ok else 0
    chk.cov['trials_and_failures_by_overhead'] = {str(h): v for h, v in tot.items()}
    chk.cov['rates_percent'] = {str(h): (100.0 * v[1] / v[0] if v[0] else None) for h, v in tot.items()}
    chk.cov['rule'] = ('uniformly random (K+h)-subsets, h in 0..2, K in %s; three mixes per (K,h): uniform over all 2^24 ESIs, '
                       'random number of source symbols + random repair, repair only; every other set is delivered one packet at a time in random '
                       'order (failed = no answer after the last packet), the others in one batch; evaluations = decodes by the real '
                       'decoder; distinct_nontrivial = failing ESI sets, each certified rank deficient by TLC (exact rank over '
                       'GF(256) of the RFC matrix); rates checked by the TLC postcondition: <1%%, <0.01%%, <0.001%%' % ks)
    for e in stats:
        if e['fails']:
            chk.sample({'k': e['k'], 'h': e['h'], 'mix': e['mix'], 'trials': e['trials'], 'nfails': e['nfails'], 'first_failing_set': e['fails'][0]})
    chk.assumptions += ['statistical: a bound is only asserted once the sample size makes a chance excess of the advertised '
                        'rate negligible (>= 8 sigma); K list fixed; structured (non-random) loss patterns not covered']
