"""C06 - every block size is encodable; intermediate symbols satisfy all constraints on every route."""
import vlib
from props import enc_common as ec

ROUTES = ['dd', 'sd', 'dp', 'sp', 'new', 'plan']


def run(chk):
    exe = vlib.build_harness('release')
    kps = ec.table_kprimes()
    jobs = []
    if chk.quick:
        for k in [10, 26, 101, 257, 1002, 1698, 8837]:
            for r in ROUTES:
                jobs.append((k, 1, r, 'cert'))
        for k in [7, 102, 1700]:                       # K < K': padding symbols
            for r in ['dd', 'sp']:
                jobs.append((k, 1, r, 'cert'))
        for r in ['sd', 'sp', 'new']:
            jobs.append((56403, 1, r, 'cert'))
        jobs.append((40, 2, 'dp', 'cert'))
        jobs.append((40, 2, 'sd', 'cert'))
        # every K' up to 3000 on both back-ends (direct solve on one, plan replay on the other), light certificate
        have = {j[0] for j in jobs}
        for kp in kps:
            if kp <= 3000 and kp not in have:
                jobs.append((kp, 1, 'sd', 'light'))
                jobs.append((kp, 1, 'dp', 'light'))
        for i, kp in enumerate(kps):
            if kp > 3000 and i % 10 == 3:
                jobs.append((kp, 1, 'sp', 'light'))
    else:
        for kp in kps:
            routes = ROUTES if kp <= 12000 else ['sd', 'sp', 'new']
            for r in routes:
                jobs.append((kp, 1, r, 'cert'))
        for kp in (20063, 30000, 56403):
            k = ec.kprime_of(kp)
            jobs.append((k, 1, 'dd', 'cert'))
        for k in [7, 102, 1700, 9000]:
            for r in ROUTES:
                jobs.append((k, 1, r, 'cert'))
        jobs += [(40, 2, 'dp', 'cert'), (40, 2, 'sd', 'cert'), (40, 2, 'new', 'cert')]
    ok = ec.run_blocks(chk, exe, jobs, 'c06', nrep=3, nrand=1, nproc=14, timeout=7000)
    # plans as behaviours of Elim.tla: every recorded row operation replayed on the RFC matrix, ending in the identity
    from props import plans_common as pc
    if chk.quick:
        pgroups = [[1, 5, 10], [11, 26], [49], [75], [101], [257]]
    else:
        pgroups = [[k] for k in (1, 2, 5, 10, 11, 12, 18, 20, 26, 30, 42, 49, 55, 60, 75, 91, 101, 127, 160, 200, 257, 307, 500)] + [[1002]]
    ok = pc.run_plans(chk, exe, pgroups, 0, 'c06') and ok
    res = vlib.tlc('MC_Elim', cfg='MC_Elim.cfg' if chk.quick else 'MC_Elim_thorough.cfg', workers=6, xss='64m', timeout=3000, tag='MC_Elim')
    vlib.expect_mc_ok(chk, res, 'MC_Elim')
    # the spec's own constraint matrix has full rank for small K' (J(K') makes A invertible): MC_Rank
    hi = 60 if chk.quick else 160
    res = vlib.tlc('MC_Rank', workers=8, xss='256m', timeout=3000, env={'RANK_MAXK': hi}, tag='MC_Rank')
    vlib.expect_mc_ok(chk, res, 'MC_Rank')
    chk.cov['evaluations'] = len(jobs)
    chk.cov['distinct_nontrivial'] = len({(ec.kprime_of(j[0]), j[2]) for j in jobs}) if ok else 0
    chk.cov['rule'] = ('one block encoder per (K, T, route): routes dd/sd = dense/sparse direct solve, dp/sp = plan generated '
                       'on that back-end and replayed, new = cached plan, plan = explicit plan; TLC certifies every LDPC, '
                       'HDPC (as MT x (GAMMA x C)) and LT relation and that all routes hold identical symbols; '
                       'distinct_nontrivial = distinct (K\', route); MC_Rank: rank(A) = L by TLC for K\' <= %d; encoding plans (default, sparse, dense '
                       'generation) additionally replayed operation by operation as behaviours of Elim.tla on the RFC matrix '
                       '(data- and T-independent certificate), MC_Elim: row operations preserve the solution set' % hi)
    chk.cov['kprimes'] = len({ec.kprime_of(j[0]) for j in jobs})
    chk.assumptions += ['tables frozen in spec/Rfc6330Tables.tla', 'T=1 (2 for one size); other T by C09']
