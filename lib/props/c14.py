"""C14 - derived transmission parameters are those of RFC 6330 4.3.
spec -> impl: MC_Derive enumerates (F, P', WS) on the decision boundaries it computes, checks optimality and
monotonicity invariants on the spec, and the harness replays every case on the derivation (hook re-export,
with_defaults, EncoderBuilder + round trip).  impl -> spec: random inputs validated by Trace_Obj."""
import vlib
from props import objcommon as oc


def key_case(m):
    c = m['case']
    return 'derive:F=%d:P=%d:WS=%d' % (oc.limbs_to_int(c['f']), c['p'], oc.limbs_to_int(c['ws']))


def key_ev(ev, mism):
    if ev is None:
        return None
    return 'derive:F=%d:P=%d:WS=%d' % (oc.limbs_to_int(ev['f']), ev['p'], oc.limbs_to_int(ev['ws']))


def run(chk):
    exe = vlib.build_harness('release')
    cfg = 'MC_Derive.cfg' if chk.quick else 'MC_Derive_thorough.cfg'
    cases = oc.tlc_cases(chk, 'MC_Derive', 'MC_Derive', cfg=cfg, workers=8, timeout=3000)
    ok = True
    if cases is not None:
        ok = oc.replay_cases(chk, exe, cases, 'c14', key_case)
        for c in [c for c in cases if c.get('valid')][:3]:
            chk.sample(c)
    n = 3000 if chk.quick else 36000
    nchunks = 6 if chk.quick else 12
    traces = []
    for i in range(nchunks):
        trace = vlib.workfile('c14_log_%d.ndjson' % i)
        rc, out = vlib.run_drv(exe, ['objlog', '--what', 'derive', '--n', n // nchunks, '--seed', chk.seed + i, '--out', trace])
        if rc != 0:
            raise vlib.ToolError('objlog failed: ' + out[-300:])
        traces.append(trace)
    results = vlib.tlc_parallel([dict(module='Trace_Obj', env={'TRACE': t}, deque=True, timeout=6000, tag='Trace_Obj[derive %d]' % i)
                                 for i, t in enumerate(traces)], max_parallel=12)
    for i, (t, r) in enumerate(zip(traces, results)):
        vlib.judge_trace(chk, r, 'Trace_Obj', t, 'Trace_Obj[derive %d]' % i, key_of=key_ev)
    ncases = len(cases or [])
    nvalid = len([c for c in (cases or []) if c.get('valid')])
    chk.cov['evaluations'] = ncases + n
    chk.cov['distinct_nontrivial'] = nvalid if ok else 0
    chk.cov['valid_cases'] = nvalid
    chk.cov['rule'] = ('spec->impl: TLC enumerates P\' x WS x F where WS sits at/one below K\'*Al*ceil(T/(Al*n)) for selected '
                       'K\' and n, at quotients beyond 32 bits, powers of two, 10 MiB, and F exactly fills Z blocks of '
                       'KL(Nmax) symbols +-1 byte; expected (T,Z,N,Al) replayed on derive_parameters (hook), with_defaults '
                       '(WS = 10 MiB) and EncoderBuilder + full round trip (F <= 256 KiB); distinct_nontrivial = cases '
                       'for which a valid configuration exists; invariants TMaximal, ZMinimal, NMinimal, Constructible, '
                       'MonotoneInWS checked by TLC on every case')
    chk.assumptions += ['Al = SS = 8 for P\' >= 64, else 1: the crate\'s choice, taken as given',
                        'outside DeriveValid (no configuration exists) any outcome is accepted']
