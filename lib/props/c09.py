"""C09 - the code is GF(256)-linear and acts independently on every byte column."""
import vlib, json, re


def key_of(ev, mism):
    if ev is None:
        return None
    w = ''
    if mism:
        m = re.search(r'<<"MISMATCH", <<"([^"]+)"', mism[0])
        w = m.group(1).replace(' ', '_') if m else ''
    return 'linear:K=%s:T=%s:route=%s:%s' % (ev.get('k'), ev.get('t'), ev.get('route'), w)


def run(chk):
    exe = vlib.build_harness('release')
    import random
    rnd = random.Random(chk.seed)
    ks_small = [1, 2, 5, 10, 13, 26, 31, 49]
    if chk.quick:
        ts = list(range(1, 131))
        jobs = [(rnd.choice(ks_small), t) for t in ts] + [(101, 24), (257, 33), (1000, 8), (10, 191), (12, 256), (7, 257)]
        # large symbols (projected byte positions): powers of two, page multiples, the largest sizes
        jobs += [(5, 1024), (3, 4096), (4, 8192), (3, 16384), (2, 20480), (3, 32768), (2, 61440), (2, 65535), (3, 65528), (4, 16385), (6, 1500), (9, 9000)]
    else:
        ts = list(range(1, 301))
        jobs = [(rnd.choice(ks_small), t) for t in ts] + [(rnd.choice([60, 101, 150]), t) for t in range(1, 140, 3)]
        jobs += [(257, 33), (1000, 8), (1000, 65), (2000, 17), (5000, 4), (12, 1024), (7, 1500)]
        jobs += [(rnd.choice([2, 3, 5, 10]), t) for t in list(range(4096, 65536, 4096)) + [65535, 65528, 16385, 40000, 1024, 2048, 9000, 12345]]
    nchunks = 10
    chunks = [jobs[i::nchunks] for i in range(nchunks)]
    traces = []
    for i, ch in enumerate(chunks):
        trace = vlib.workfile('c09_%d.ndjson' % i)
        rc, out = vlib.run_drv(exe, ['linear', '--out', trace, '--seed', chk.seed + i, '--jobs', ';'.join('%d:%d' % j for j in ch)])
        if rc != 0:
            raise vlib.ToolError('linear driver failed: ' + out[-300:])
        traces.append(trace)
    results = vlib.tlc_parallel([dict(module='Trace_Linear', env={'TRACE': t}, deque=True, timeout=3000, xmx='3g',
                                      tag='Trace_Linear[%d]' % i) for i, t in enumerate(traces)], max_parallel=12)
    ok = True
    nbytes = 0
    for i, (t, r) in enumerate(zip(traces, results)):
        ok = vlib.judge_trace(chk, r, 'Trace_Linear', t, 'Trace_Linear[%d]' % i, nruns=len(chunks[i]), key_of=key_of) and ok
    for k, t in jobs:
        nbytes += 3 * (k + 8) * (t if t <= 300 else 130)       # above 300 octets ~130 projected byte positions are compared
    with open(traces[0]) as f:
        e = json.loads(f.readlines()[1])
        chk.sample({'k': e['k'], 't': e['t'], 'c': e['c'], 'route': e['route'], 'esis': e['esis'], 'pa[0]': e['pa'][0][:8], 'pb[0]': e['pb'][0][:8],
                    'pab[0]': e['pab'][0][:8], 'pca[0]': e['pca'][0][:8]})
    chk.cov['evaluations'] = nbytes
    chk.cov['distinct_nontrivial'] = len({t for _, t in jobs}) if ok else 0
    chk.cov['symbol_sizes'] = [min(t for _, t in jobs), max(t for _, t in jobs)]
    chk.cov['rule'] = ('for each symbol size T (quick: every T in 1..130 plus 191/256/257, i.e. every residue of the 8/16/32/64-byte '
                       'strides and more than two AVX-512 vectors, plus 12 large sizes up to 65535 on ~130 projected byte positions - both ends, around multiples of 4096, a random sample; thorough: 1..300, larger K, every multiple of 4096) one block: packets (all source + 8 repair '
                       'ESIs incl. a random 24-bit one, 65536 and 2^24-1) of A, B, A xor B, c*A and of each byte column of A at T=1, '
                       'alternating SourceBlockEncoder::new and one encoding plan reused across all T; evaluations = byte relations '
                       'checked by TLC; distinct_nontrivial = distinct symbol sizes')
    chk.assumptions += ['c*A is formed with the crate\'s Octet product (validated by C10)']
