"""C12 - unsafe code never touches memory outside the buffers it was given (partial; level "other").
The C11 kernel workload and small codec workloads are re-run in child processes whose global allocator puts every
allocation flush against a PROT_NONE page (end-flush, then start-flush): a stray access of one byte kills the child,
the death is appended to the trace as an event, and the trace spec has no such step.  The traces themselves are
validated as in C11/C01/C06 (frame condition incl. canaries), and the slab's paired borrows are validated by
Trace_Slab."""
import json, os
import vlib
from props import c11


def crash_event(trace, rc, txt):
    # a child killed in mid-write leaves a torn last line: keep the complete events only, then append the crash
    good = []
    if os.path.exists(trace):
        for line in open(trace):
            try:
                json.loads(line)
                good.append(line if line.endswith('\n') else line + '\n')
            except Exception:
                break
    if not good:
        good = ['{"ev":"meta"}\n']
    with open(trace, 'w') as f:
        f.writelines(good)
    with open(trace, 'a') as f:
        f.write(json.dumps({'ev': 'crash', 'exit': rc, 'signal': -rc if rc < 0 else None, 'output': txt[-300:]}) + '\n')


def run(chk):
    exe = vlib.build_harness('release')
    # the allocator itself must work: an over-read / under-read by one byte has to kill the process
    for mode, what in (('1', 'overread'), ('2', 'underread')):
        rc, txt = vlib.run_drv(exe, ['guardtest', '--what', what], env={'RQV_GUARD': mode})
        if rc == 0:
            raise vlib.ToolError('guard allocator self-test failed: %s survived under mode %s' % (what, mode))
    jobs = []      # (module, name, trace, env for TLC)
    nchild = 0
    for mode in ('1', '2'):
        runs, skipped = c11.kernel_traces(chk, exe, 'c12_g%s' % mode, extra_args=['--lite', '--isolate'], env={'RQV_GUARD': mode})
        for name, trace, rc, txt in runs:
            nchild += 1
            if rc != 0:
                crash_event(trace, rc, txt)
            jobs.append(('Trace_Kernels', 'guard%s:%s' % (mode, name), trace, {}))
        # codec workloads under the guard allocator
        wl = [('Trace_Codec', 'codec-object', ['codec-object', '--configs', '100:8:3:2:4;37:3:2:1:1;480:8:1:1:8;26:1:1:1:1', '--subsets', 2, '--perms', 2], {'RANKMAX': 60}),
              ('Trace_Codec', 'codec-block', ['codec-block', '--blocks', '10:1;26:3;49:8', '--seqs', 8], {'RANKMAX': 60}),
              ('Trace_Enc', 'enc', ['enc', '--jobs', '10:1:dd:cert;26:3:sd:cert;60:8:dp:cert;101:2:sp:cert;257:1:new:cert;1002:1:sd:cert', '--nrep', 6], {}),
              ('Trace_Stream', 'stream', ['stream', '--configs', '20:2:1;120:2:5', '--windows', 4], {'ORACLEMAX': 26})]
        for module, nm, args, tenv in wl:
            trace = vlib.workfile('c12_g%s_%s.ndjson' % (mode, nm))
            if os.path.exists(trace):
                os.remove(trace)
            rc, txt = vlib.run_drv(exe, args + ['--out', trace, '--seed', chk.seed, '--property', 'C12'], env={'RQV_GUARD': mode}, timeout=3000)
            nchild += 1
            if rc != 0:
                if not os.path.exists(trace):
                    open(trace, 'w').write('{"ev":"meta"}\n')
                crash_event(trace, rc, txt)
            jobs.append((module, 'guard%s:%s' % (mode, nm), trace, tenv))
    # slab paired borrows
    trace = vlib.workfile('c12_slab.ndjson')
    rc, txt = vlib.run_drv(exe, ['slabobs', '--jobs', '10:4;26:3;60:8;1:1;101:2;300:1' if chk.quick else '10:4;26:3;60:8;1:1;101:2;300:1;1002:4;5000:2', '--out', trace])
    if rc != 0:
        open(trace, 'a').write(json.dumps({'ev': 'crash', 'exit': rc}) + '\n')
    jobs.append(('Trace_Slab', 'slab', trace, {}))
    results = vlib.tlc_parallel([dict(module=m, env=dict(e, TRACE=t), deque=True, timeout=3000, xmx='3g', tag='%s[%s]' % (m, n))
                                 for m, n, t, e in jobs], max_parallel=15)

    def key_of(ev, mism):
        if ev is None:
            return None
        if ev.get('ev') == 'crash':
            return 'crash'
        return c11.key_of(ev, mism)
    ok = True
    npairs = 0
    for (m, n, t, e), r in zip(jobs, results):
        ok = vlib.judge_trace(chk, r, m, t, '%s[%s]' % (m, n), key_of=lambda ev, mism, n=n: 'guard:%s:%s' % (n, key_of(ev, mism))) and ok
    for line in open(trace):
        ev = json.loads(line)
        if ev.get('ev') == 'pairs':
            npairs += len(ev['pairs'])
            chk.sample({'ev': 'pairs', 'k': ev['k'], 't': ev['t'], 'first': ev['pairs'][:3]}, limit=2)
    chk.cov['explanation'] = ('Behavioural evidence only: (a) frame condition with canary margins on every kernel call (C11 traces); '
                              '(b) %d child processes (every kernel variant in a reduced plan + encode/decode/stream workloads) run with '
                              'a guard-page allocator in end-flush and start-flush mode - a child that dies is a rejected trace; '
                              '(c) %d paired borrows of SymbolSlab validated disjoint/in-bounds by Trace_Slab; (d) table index bounds in '
                              'C10.  Not covered: reads that stay inside mapped memory (alignment slack below 8 bytes, neighbouring live '
                              'objects are never adjacent under this allocator but slack inside the page is readable), and undefined '
                              'behaviour without a fault or wrong value (aliasing).' % (nchild, npairs))
    chk.cov['evaluations'] = nchild + npairs
    chk.cov['distinct_nontrivial'] = nchild if ok else 0
    chk.cov['child_processes'] = nchild
    chk.cov['paired_borrows'] = npairs
    chk.assumptions += ['a fault is the only observable of an out-of-bounds read', 'x86-64 kernels only']
