"""C02 - a block decodes exactly when the received symbols determine it.
At every prefix of generated arrival sequences (threshold walks, batches that trigger the GF(2)-only attempt,
repair-only sets, both matrix back-ends) Some/None of SourceBlockDecoder::decode must equal
AllSource \\/ rank(A(K,S)) = L as computed by TLC from the RFC definitions."""
import vlib
from props import codec_common as cc


def run(chk):
    exe = vlib.build_harness('release')
    res = vlib.tlc('MC_Codec', cfg='MC_Codec.cfg', workers=8, xss='256m', timeout=3000, tag='MC_Codec')
    vlib.expect_mc_ok(chk, res, 'MC_Codec')
    jobs = []
    if chk.quick:
        groups = [[1, 2, 3, 4, 5, 6, 7], [8, 9, 10, 11], [12, 13, 14, 15], [16, 17, 18], [19, 20, 21], [22, 23], [24, 25, 26], [30, 33], [42], [49]]
        for g in groups:
            seqs = 16 if max(g) <= 26 else 8
            jobs.append(('k%d' % g[0], ['codec-block', '--blocks', ';'.join('%d:%d' % (k, 1 + (k % 2)) for k in g), '--seqs', seqs, '--dups', 9]))
        rankmax = 60
    else:
        for k in range(1, 61):
            jobs.append(('k%d' % k, ['codec-block', '--blocks', '%d:1;%d:3' % (k, k), '--seqs', 40 if k <= 26 else 24, '--dups', 18]))
        for k in (69, 75, 84, 91, 101):
            jobs.append(('k%d' % k, ['codec-block', '--blocks', '%d:1' % k, '--seqs', 12]))
        rankmax = 110
    # block sizes beyond the rank oracle: one received set decoded on both back-ends and in two batchings must give one outcome
    import random
    rnd = random.Random(chk.seed + 17)
    big = [61, 101, 249, 250, 251, 860, 913, 938] + [rnd.randint(62, 3000) for _ in range(32 if chk.quick else 150)] \
        + ([] if chk.quick else [3970, 5000, 8654, 12000] + [rnd.randint(3000, 12000) for _ in range(20)])
    for i in range(0, len(big), 5):
        jobs.append(('cross%d' % i, ['codec-block', '--blocks', ';'.join('%d:%d' % (k, 1 + (k % 3 == 0)) for k in big[i:i + 5]),
                                     '--seqs', 0, '--cross', 4 if chk.quick else 8]))
    ok, st = cc.run_traces(chk, exe, jobs, rankmax, nproc=14, timeout=10000)
    # the solver's own steps: operation vectors recorded while decoding random received sets (standard and GF(2)-only route,
    # both back-ends) replayed on the RFC matrix of that set as behaviours of Elim.tla
    from props import plans_common as pc
    pg = [[2, 5, 10], [13, 19], [26], [33], [40]] if chk.quick else [[k] for k in (1, 2, 3, 5, 7, 10, 11, 13, 17, 19, 23, 26, 30, 33, 40, 49, 60, 75, 101)]
    ok = pc.run_plans(chk, exe, pg, 4 if chk.quick else 10, 'c02') and ok
    # ... and the same runs observed at every first-phase step and phase end, checked against Solver.tla (Figure 6 etc.)
    sjobs = [[2, 5], [10], [13], [26]] if chk.quick else [[k] for k in (1, 2, 3, 5, 7, 10, 11, 13, 17, 19, 23, 26, 30, 33, 40, 49, 60)]
    straces = []
    for i, g in enumerate(sjobs):
        t = vlib.workfile('c02_solver_%d.ndjson' % i)
        rc, out = vlib.run_drv(exe, ['solver', '--jobs', ';'.join(map(str, g)), '--decodes', 3 if chk.quick else 8, '--seed', chk.seed + 3 * i, '--out', t])
        if rc != 0:
            raise vlib.ToolError('solver driver failed: ' + out[-300:])
        straces.append(t)
    sres = vlib.tlc_parallel([dict(module='Trace_Solver', env={'TRACE': t}, deque=True, timeout=6000, xmx='4g', tag='Trace_Solver[%d]' % i)
                              for i, t in enumerate(straces)], max_parallel=12)
    nmarks = 0
    for i, (t, r) in enumerate(zip(straces, sres)):
        import json as _json
        n = sum(len(_json.loads(l).get('marks', [])) for l in open(t))
        nmarks += n
        ok = vlib.judge_trace(chk, r, 'Trace_Solver', t, 'Trace_Solver[%d]' % i, nruns=sum(1 for l in open(t) if '"solve"' in l), advisory=True,
                              key_of=lambda ev, mism: ('solver:K=%s:route=%s' % (ev.get('k'), ev.get('route'))) if ev else None) and ok
    chk.cov['solver_observation_points'] = nmarks
    res = vlib.tlc('MC_Solver', cfg='MC_Solver.cfg' if chk.quick else 'MC_Solver_thorough.cfg', workers=6, xss='64m', timeout=6000, tag='MC_Solver')
    vlib.expect_mc_ok(chk, res, 'MC_Solver')
    # the None direction: hunt for failing sets with the real decoder, TLC certifies each one as rank deficient
    from props import c03
    hk, n0, n1 = ([10, 13, 19, 26], 40000, 200000) if chk.quick else ([10, 11, 13, 19, 26, 31, 40, 49, 60], 400000, 4000000)
    ok3, tot, certified, stats = c03.sample_and_certify(chk, exe, hk, n0, n1, 0, 'c02_hunt', check_rates=False)
    ok = ok and ok3
    st['threshold_none'] += certified
    st['hunt_trials'] = sum(v[0] for v in tot.values())
    chk.cov['evaluations'] = st['deliver']
    chk.cov['distinct_nontrivial'] = st['histories'] if ok else 0
    chk.cov['stats'] = st
    chk.cov['legitimate_failures_at_or_above_K'] = st['threshold_none']
    chk.cov['rule'] = ('per K: sequences of SourceBlockDecoder::decode calls: (a) nsrc source symbols + repair up to exactly K '
                       'then one at a time to K+3; (b) K-1 source + repair; (c) one batch of K\'+H..+3 symbols with a source '
                       'symbol missing (GF(2)-only attempt and its fall-back); (d) K repair symbols at once, then singles, then '
                       'all source symbols; (e) batches with duplicates inside - [new, duplicate] and [duplicate, new] in one call on a decoder that has not solved yet, and after a solve that failed on a set found by search; for ~40 (thorough ~190) block sizes up to 3000 (12000) - beyond the rank oracle - one received set of K..K+3 symbols decoded '
                       'on both back-ends and in two batchings must give one outcome and the original bytes; repair ESIs from a window after K, scattered 24-bit ESIs and 2^24-1; alternating '
                       'sparse/dense back-end. Every call\'s Some/None and bytes validated by TLC (exact rank, K\' <= %d). '
                       'distinct_nontrivial = sequences accepted; legitimate failures (None at >= K symbols, certified rank '
                       'deficient by TLC) are counted separately; plus a hunt: random K and K+1 subsets decoded by the real decoder, every '
                       'failing set logged and certified rank deficient by TLC. Solver internals: recorded operation vectors replayed on the RFC '
                       'matrix (Elim.tla) and the phase structure (Figure 6, phase-end predicates of Solver.tla) checked at every '
                       'observation point; MC_Solver: the liberal solver schema ends solved iff the system has full rank, on all '
                       'binary 4x3 (5x3) systems.' % rankmax)
    chk.assumptions += ['rank oracle: Rfc6330!FullRank (TLC); tables frozen in spec',
                        'Solver.tla (Figure 6, phase-end predicates, the first-phase step) describes HOW the solver works: a run that leaves it while the recorded operations still are a valid elimination (Trace_Plan) and every answer is right (Trace_Codec) is reported as MODEL-DEVIATION, not as a violation of C02']
