"""C18 - the repair stream is addressed consistently (fountain property)."""
import vlib, json, re


def key_of(ev, mism):
    if ev is None:
        return None
    w = ''
    if mism:
        m = re.search(r'<<"MISMATCH", <<"([^"]+)"', mism[0])
        w = m.group(1)[:50].replace(' ', '_') if m else ''
    return 'stream:%s:sbn=%s:s=%s:n=%s:%s' % (ev.get('ev'), ev.get('sbn'), ev.get('s'), ev.get('n'), w)


def run(chk):
    exe = vlib.build_harness('release')
    if chk.quick:
        groups = [['20:2:1', '37:1:2', '5:1:1', '26:1:1'], ['49:2:3', '13:1:1', '1:1:1'], ['300:3:1', '2000:4:2'], ['9000:8:1', '120:2:5'],
                  # objects whose source blocks are byte-identical (zero / constant / periodic data)
                  ['40:1:2:1', '64:2:4:2', '96:1:3:3', '37:1:2:2']]
        windows = 8
    else:
        groups = [['%d:%d:%d' % (k * t * z - (k % t), t, z)] for k in (1, 2, 3, 5, 7, 10, 11, 13, 17, 19, 20, 23, 26) for t, z in ((1, 1), (2, 2))]
        groups += [['300:3:1', '2000:4:2'], ['9000:8:1', '120:2:5'], ['60000:16:3'], ['400000:64:1'], ['5000:5:4', '777:7:1']]
        groups += [['40:1:2:1', '64:2:4:2', '96:1:3:3', '37:1:2:2'], ['1600:16:5:2', '400:8:2:1', '3200:4:8:3']]
        windows = 30
    jobs = []
    for i, g in enumerate(groups):
        trace = vlib.workfile('c18_%d.ndjson' % i)
        rc, out = vlib.run_drv(exe, ['stream', '--out', trace, '--seed', chk.seed + i, '--configs', ';'.join(g), '--windows', windows]
                               + (['--bigwin'] if i == len(groups) - 1 else []))      # the last trace also carries the long / all-lengths windows
        if rc != 0:
            raise vlib.ToolError('stream driver failed: ' + out[-300:])
        jobs.append(trace)
    results = vlib.tlc_parallel([dict(module='Trace_Stream', env={'TRACE': t, 'ORACLEMAX': 26}, deque=True, timeout=3000,
                                      tag='Trace_Stream[%d]' % i) for i, t in enumerate(jobs)], max_parallel=12)
    ok = True
    nreq = npk = 0
    distinct = set()
    for i, (t, r) in enumerate(zip(jobs, results)):
        ok = vlib.judge_trace(chk, r, 'Trace_Stream', t, 'Trace_Stream[%d]' % i, key_of=key_of) and ok
        cfg = None
        for line in open(t):
            e = json.loads(line)
            if e['ev'] == 'cfg':
                cfg = (i, e['id'])
            if e['ev'] in ('window', 'list'):
                nreq += 1
                npk += len(e['packets'])
                for p in e['packets']:
                    distinct.add((cfg, p[0], p[1]))
                if e['ev'] == 'window' and e['n'] > 1:
                    chk.sample({k: (v if k != 'packets' else [[p[0], p[1], p[2][:4]] for p in v[:3]]) for k, v in e.items()}, limit=3)
    chk.cov['evaluations'] = npk
    chk.cov['distinct_nontrivial'] = len(distinct) if ok else 0
    chk.cov['requests'] = nreq
    chk.cov['rule'] = ('per block: windows (random, overlapping, ending at ESI 2^24-1, around 65536), single requests for every '
                       'window member, each through a randomly chosen encoder among {new (cached plan), two independently generated '
                       'plans, the whole-object encoder}; get_encoded_packets(r) for r in {0,1,5}: order, IDs, SBN, distinctness; '
                       'payloads: exact RFC oracle (TLC solve) for K <= 26 and T <= 2, learned map otherwise; '
                       'evaluations = packets observed, distinct_nontrivial = distinct (config, block, ESI) observed')
    chk.assumptions += ['N = 1, Al = 1 configurations (layout is C05)']
