"""C05 - object partitioning and source packet layout follow RFC 6330 4.4.1.2 (spec -> impl)."""
import vlib
from props import objcommon as oc


def key_case(m):
    c = m['case']
    if c.get('kind') == 'offsets':
        return 'offsets:T=%d:Kt=%d:Z=%d:r=%d' % (c['t'], c['kt'], c['z'], c['r'])
    return 'layout:F=%d:T=%d:Z=%d:N=%d:Al=%d' % (c['f'], c['t'], c['z'], c['n'], c['al'])


def run(chk):
    exe = vlib.build_harness('release')
    cfg = 'MC_Layout.cfg' if chk.quick else 'MC_Layout_thorough.cfg'
    cases = oc.tlc_cases(chk, 'MC_Layout', 'MC_Layout', cfg=cfg, workers=10, timeout=5000)
    ok = True
    if cases is not None:
        ok = oc.replay_cases(chk, exe, cases, 'c05', key_case)
        for c in cases:
            if c.get('kind') == 'layout' and c['z'] > 1 and c['n'] > 1 and c['f'] % c['t'] != 0 and len(chk.cov['samples']) < 2:
                chk.sample(c)
    ncases = len(cases or [])
    nontrivial = len([c for c in (cases or []) if c.get('kind') == 'offsets' or c['z'] > 1 or c['n'] > 1 or c['f'] % c['t'] != 0])
    chk.cov['evaluations'] = ncases
    chk.cov['distinct_nontrivial'] = nontrivial if ok else 0
    chk.cov['exhaustive'] = True
    chk.cov['rule'] = ('exhaustive enumeration by TLC of (F,T,Z,N,Al): T <= MaxT, Al | T, N <= T/Al, F <= MaxSymbols*T, '
                       'Z <= min(Kt, MaxZ) (see the cfg), plus directed larger shapes; expected (SBN, ESI, payload) list from '
                       'Partition + sub-block rule; replay: Encoder::new + get_encoded_packets(0) compared packet by packet, then '
                       'Decoder fed in reverse order must return the object; non-trivial = Z>1 or N>1 or F not a multiple of T')
    chk.assumptions += ['Data(i) formula shared by spec and harness', 'shapes outside the box only through the directed list']
