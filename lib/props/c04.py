"""C04 - encoding symbols are byte-exact RFC 6330 symbols.
full oracle (TLC solves A*C=D from the RFC definitions) for small K; certified oracle (TLC checks that the
implementation's intermediate symbols satisfy every RFC relation, then recomputes the packets) for any K'."""
import vlib
from props import enc_common as ec


def run(chk):
    exe = vlib.build_harness('release')
    kps = ec.table_kprimes()
    jobs = []
    if chk.quick:
        for k in list(range(1, 27)) + [30, 42, 49]:
            jobs.append((k, 1, 'new', 'full'))
        jobs += [(5, 2, 'new', 'full'), (13, 3, 'plan', 'full'), (26, 2, 'plan', 'full')]
        # the block as second block of a two-block object (first block one symbol larger: another K' when k is a table value)
        jobs += [(10, 2, 'obj', 'full'), (12, 1, 'obj', 'full'), (18, 1, 'obj', 'full'), (11, 3, 'obj', 'full'), (26, 1, 'obj', 'full'),
                 (101, 2, 'obj', 'cert'), (1002, 1, 'obj', 'cert')]
        cert = [10, 11, 27, 101, 250, 257, 999, 1002, 1698, 1699, 8837, 20000, 56403, 56000]
        for k in cert:
            jobs.append((k, 1, 'new', 'cert'))
        jobs += [(19, 4, 'new', 'cert'), (300, 3, 'plan', 'cert')]
        # every Table-2 row up to 6000 and a spread above, light certificate (LT relations on ~60 ISIs): a change to one
        # row (J, S, H, W) or to one table entry that only some K' reach is seen on every change
        certk = set(cert)
        for i, kp in enumerate(kps):
            if kp not in certk and (kp <= 6000 or i % 12 == 5):
                jobs.append((kp, 1, 'new', 'light'))
    else:
        for k in range(1, 102):
            jobs.append((k, 1, 'new', 'full'))
        for k in (3, 10, 17, 33, 61):
            jobs.append((k, 3, 'plan', 'full'))
        prev = 0
        for kp in kps:
            jobs.append((kp, 1, 'new', 'cert'))
            if prev + 1 < kp and prev + 1 > 101:
                jobs.append((prev + 1, 1, 'new', 'cert'))     # maximal padding for this K'
            prev = kp
        jobs += [(19, 4, 'new', 'cert'), (300, 3, 'plan', 'cert'), (5000, 2, 'new', 'cert')]
        jobs += [(k, 1 + k % 2, 'obj', 'full') for k in (10, 11, 12, 18, 20, 26, 32, 36, 42, 48, 49, 55, 60, 62, 69, 75, 84, 88, 91, 95, 97, 101)]
        jobs += [(k, 1, 'obj', 'cert') for k in kps[22:477:9]]
    ok = ec.run_blocks(chk, exe, jobs, 'c04', nrep=13, nrand=4, nproc=14)
    # small blocks with the full oracle once more with a long repair window (150 ESIs): tuples that are rare per ESI
    ok = ec.run_blocks(chk, exe, [(k, 1, 'new', 'full') for k in ((10, 12, 18, 19, 20, 26) if chk.quick else (1, 5, 10, 11, 12, 13, 18, 19, 20, 21, 26, 27, 32, 36, 42))],
                       'c04long', nrep=150, nrand=2, nproc=14) and ok
    chk.cov['evaluations'] = len(jobs)
    chk.cov['distinct_nontrivial'] = len({(ec.kprime_of(j[0]), j[3]) for j in jobs}) if ok else 0
    chk.cov['rule'] = ('one block encoder per job (K,T,route,mode) - route obj: the block is the second block of a two-block object built by Encoder::new whose first block is one symbol larger; packets checked: all K source packets + repair ESIs '
                       'K..K+12, 4 random 24-bit ESIs, 65536, 2^24-1; distinct_nontrivial = distinct (K\', oracle mode); '
                       'mode full: TLC solves the RFC system itself; mode cert: TLC certifies the implementation\'s '
                       'intermediate symbols against every LDPC/HDPC/LT relation and recomputes the packets')
    chk.cov['full_oracle_K'] = sorted({j[0] for j in jobs if j[3] == 'full'})
    chk.cov['certified_Kprime'] = len({ec.kprime_of(j[0]) for j in jobs if j[3] == 'cert'})
    chk.assumptions += ['V0..V3 and Table 2 frozen in spec/Rfc6330Tables.tla equal the RFC\'s (transcribed from the baseline tree)',
                        'uniqueness of the certified solution relies on invertibility of A (verified by TLC for K\' <= 101 in C06, RFC guarantee above)',
                        'all symbol sizes follow from T=1..4 by byte-column independence (C09)']
