"""C16 - dense and sparse binary matrices implement the same abstract matrix.
MC_Matrix (exhaustive): every admissible operation with every argument on tiny shapes; bookkeeping invariants and
row-space preservation.  spec -> impl: TLC (-simulate) generates operation histories of Matrix.tla following the
solver's usage pattern on shapes around the 64-bit word boundaries, with the expected answer of every query; each is
replayed on DenseBinaryMatrix and SparseBinaryMatrix."""
import json
import vlib


def run(chk):
    exe = vlib.build_harness('release')
    res = vlib.tlc('MC_Matrix', workers=8, xss='64m', timeout=1800, tag='MC_Matrix', coverage=not chk.quick)
    vlib.expect_mc_ok(chk, res, 'MC_Matrix')
    nproc, per = (12, 14) if chk.quick else (14, 360)
    rs = vlib.tlc_parallel([dict(module='MC_Matrix', cfg='MC_Matrix_sim.cfg', workers=1, xss='64m', timeout=7000,
                                 simulate='num=%d' % per, depth=250, extra=['-seed', str(chk.seed + 101 * i)],
                                 tag='MC_Matrix[simulate %d]' % i) for i in range(nproc)], max_parallel=14)
    behaviours = []
    for i, r in enumerate(rs):
        if r.invariant or r.error:
            vlib.expect_mc_ok(chk, r, 'MC_Matrix_sim%d' % i)
            continue
        chk.cov['tlc_runs'].append({'name': 'MC_Matrix[simulate %d]' % i, 'behaviours': per, 'wall_s': round(r.wall, 1)})
        for l in r.out.splitlines():
            if l.startswith('"{'):
                behaviours.append(json.loads(json.loads(l)))
    if not behaviours:
        raise vlib.ToolError('no behaviours generated')
    cin = vlib.workfile('c16_behaviours.ndjson')
    cout = vlib.workfile('c16_results.ndjson')
    vlib.write_ndjson(cin, behaviours)
    rc, out = vlib.run_drv(exe, ['matrix-replay', '--in', cin, '--out', cout], timeout=3000)
    if rc != 0:
        raise vlib.ToolError('matrix-replay failed: ' + out[-400:])
    vlib.log('[replay] ' + out.strip().splitlines()[-1])
    mism = vlib.read_ndjson(cout)
    seen = set()
    for m in mism:
        new = m['case']['new']
        what = m['mismatch'][0]
        import re
        kind = re.sub(r'step \d+ ', '', what).split(':')[0]
        key = 'matrix:%s:h=%d:w=%d:hint=%d' % (kind, new['h'], new['w'], new['hint'])
        if key in seen or len(seen) >= 6:
            continue
        seen.add(key)
        chk.violation(key, 'replayed history disagrees with the abstract matrix: ' + '; '.join(m['mismatch'])[:500],
                      {'case': m['case'], 'mismatch': m['mismatch']})
    nsteps = sum(len(b['ops']) for b in behaviours)
    shapes = {(b['ops'][0]['h'], b['ops'][0]['w'], b['ops'][0]['hint']) for b in behaviours}
    ops = {}
    for b in behaviours:
        for o in b['ops']:
            ops[o['op']] = ops.get(o['op'], 0) + 1
    chk.cov['traces_validated_against_impl'] += len(behaviours) - len(mism)
    chk.cov['evaluations'] = nsteps
    chk.cov['distinct_nontrivial'] = len(behaviours) - len(mism)
    chk.cov['operations'] = ops
    chk.cov['shapes'] = sorted(shapes)
    chk.cov['rule'] = ('exhaustive: all operations x all arguments on 2x2/3x2/3x3 matrices (TypeOK, RowSpacePreserved, FreezeKeepsCells); '
                       'generated: histories new -> fill -> index -> ~110 random {swap rows/cols, column query, single-one row addition, '
                       'freeze, count/row iteration, tail queries, get, set in tail} -> un-index -> resize -> ~25 free row additions / '
                       'sets / queries, on 13 shapes with widths 1..200 around word boundaries and dense tails grown across 64 and 128 '
                       'columns by freezing; every query answer and full-matrix snapshots compared on both back-ends; '
                       'evaluations = operations replayed; distinct_nontrivial = behaviours accepted (random draws: all distinct)')
    b0 = behaviours[0]
    chk.sample({'new': b0['ops'][0], 'ops[2..8]': b0['ops'][2:8]})
    chk.assumptions += ['preconditions as in DESIGN Appendix C (e.g. first freeze of a matrix created with hint 0 is outside the contract)',
                        'get_row_iter compared on its one-valued entries (sparse yields only ones, dense yields every cell)']
