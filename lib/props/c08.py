"""C08 - decoder outcome is independent of packet order, duplication and batching.
Same machinery as C01 with many histories per packet multiset: every history of the same set is validated
against the same set-determined oracle, so two histories that end differently cannot both be accepted."""
import vlib
from props import codec_common as cc
from props.c01 import QUICK_CFGS, cfg_jobs

CFGS = ['37:3:2:1:1', '100:8:3:2:4', '120:12:2:3:4', '200:8:4:2:2', '26:1:1:1:1', '77:7:3:1:1', '90:2:1:2:1', '17:1:4:1:1',
        '49:1:1:1:1', '640:16:4:2:8']


def run(chk):
    exe = vlib.build_harness('release')
    res = vlib.tlc('MC_Codec', cfg='MC_Codec.cfg' if chk.quick else 'MC_Codec_thorough.cfg', workers=8, xss='256m',
                   timeout=3000, tag='MC_Codec', xmx='4g' if chk.quick else '12g')
    vlib.expect_mc_ok(chk, res, 'MC_Codec')
    okm = cc.replay_model_behaviours(chk, exe, 40 if chk.quick else 600)
    if chk.quick:
        jobs = cfg_jobs(CFGS, 2, 6, 1, 'perm')
        jobs += cfg_jobs(['16000:8:1:1:8'], 2, 4, 1, 'learned')
        jobs += [('blockbatch', ['codec-block', '--blocks', '10:1;12:2;18:1;26:1;27:1;2:1', '--seqs', 8, '--dups', 12])]
        rankmax = 60
    else:
        jobs = cfg_jobs(CFGS + QUICK_CFGS, 5, 9, 1, 'perm')
        jobs += cfg_jobs(['16000:8:1:1:8', '3001:3:2:1:1', '40000:16:2:2:8'], 3, 6, 1, 'learned')
        jobs += [('blockbatch', ['codec-block', '--blocks', ';'.join('%d:1' % k for k in range(a, a + 6)), '--seqs', 12, '--dups', 12]) for a in range(1, 49, 6)]
        rankmax = 110
    ok, st = cc.run_traces(chk, exe, jobs, rankmax, nproc=14, timeout=6000)
    chk.cov['evaluations'] = st['deliver']
    chk.cov['distinct_nontrivial'] = st['histories'] if (ok and okm) else 0
    chk.cov['stats'] = st
    chk.cov['rule'] = ('for each packet multiset 6 (quick) / 9 (thorough) histories: permutations, block-wise and reversed '
                       'orders, duplicates, batches through SourceBlockDecoder::decode(iterator), both object APIs, clones '
                       'continued in reverse, deliveries after completion; all validated against the set-determined state '
                       'machine of spec/Codec.tla (MC_Codec: SetDetermined, Stable, SameSetsSameAnswer exhaustive); '
                       'distinct_nontrivial = histories accepted')
    chk.assumptions += ['as C01']
