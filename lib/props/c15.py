"""C15 - code parameters and symbol tuples are well-formed for every K and every ESI; no panic in optimised
or overflow-checked builds.  MC_Params: Table-2 consistency exhaustively + TLC solves for the wrap ISIs.
Trace_Params: systematic constants and tuples of the implementation (both build profiles) equal the spec."""
import vlib, json
from props import objcommon as oc


def key_ev(ev, mism):
    if ev is None:
        return None
    if ev.get('ev') == 'tuple':
        return 'tuple:Kp=%s:X=%s' % (ev.get('kp'), ev.get('x'))
    return 'params:K=%s' % ev.get('k')


def run(chk):
    exe = vlib.build_harness('release')
    exe_chk = vlib.build_harness('checked')
    res = vlib.tlc('MC_Params', cfg='MC_Params.cfg' if chk.quick else 'MC_Params_thorough.cfg', workers=8, xss='64m', timeout=3000, tag='MC_Params')
    cases = None
    if vlib.expect_mc_ok(chk, res, 'MC_Params'):
        cases = [json.loads(json.loads(l)) for l in res.out.splitlines() if l.startswith('"{')]
    # (c) spec -> impl: the wrap ISIs solved by TLC, replayed in both profiles (tuple, produce, consume)
    edges = [c for c in (cases or []) if c['kind'] == 'edge']
    cases = [c for c in (cases or []) if c['kind'] == 'wrap']
    chk.cov['degree_threshold_isis'] = len(edges)
    for group, gname, extra in ((cases, 'wrap', ['--codec']), (edges, 'edge', [])):
        if not group:
            continue
        cin = vlib.workfile('c15_%s_cases.ndjson' % gname)
        vlib.write_ndjson(cin, group)
        for prof, e in (('checked', exe_chk), ('release', exe)):
            cout = vlib.workfile('c15_%s_results_%s.ndjson' % (gname, prof))
            rc, out = vlib.run_drv(e, ['wrapreplay', '--in', cin, '--out', cout] + extra)
            if rc != 0:
                raise vlib.ToolError('wrapreplay failed: ' + out[-300:])
            vlib.log('[replay] %s ISIs (%s): %s' % (gname, prof, out.strip().splitlines()[-1]))
            for m in vlib.read_ndjson(cout)[:6]:
                c = m['case']
                chk.violation('%s:%s:Kp=%d:X=%d' % (gname, prof, c['kp'], c['x']),
                              ('ISI at which y+i wraps 32 bits' if gname == 'wrap' else 'ISI whose degree draw lands on a table threshold') +
                              ' (%s build): %s' % (prof, '; '.join(m['mismatch'])),
                              {'case': c, 'got': m['got'], 'mismatch': m['mismatch'], 'profile': prof})
            chk.cov['traces_validated_against_impl'] += len(group)
        for c in group[:3]:
            chk.sample(c)
    # (a)+(b) impl -> spec
    jobs = []
    if chk.quick:
        plan = [('params', exe, 'release', ['--what', 'params', '--nrand', 500]),
                ('tuples', exe, 'release', ['--what', 'tuples', '--per', 24]),
                ('tuples', exe_chk, 'checked', ['--what', 'tuples', '--per', 8]),
                ('deg', exe, 'release', ['--what', 'deg'])]
    else:
        plan = [('params', exe, 'release', ['--what', 'params', '--range', '%d:%d' % (a, min(a + 7050, 56403))])
                for a in range(0, 56404, 7051)]
        plan += [('params', exe_chk, 'checked', ['--what', 'params', '--nrand', 3000]), ('deg', exe, 'release', ['--what', 'deg']), ('deg', exe_chk, 'checked', ['--what', 'deg'])]
        plan += [('tuples', exe, 'release', ['--what', 'tuples', '--per', 2400, '--first', a, '--count', 40]) for a in range(0, 477, 40)]
        plan += [('tuples', exe_chk, 'checked', ['--what', 'tuples', '--per', 600, '--first', a, '--count', 120]) for a in range(0, 477, 120)]
    traces = []
    nev = 0
    for i, (what, e, prof, args) in enumerate(plan):
        trace = vlib.workfile('c15_%s_%s_%d.ndjson' % (what, prof, i))
        rc, out = vlib.run_drv(e, ['paramlog', '--out', trace, '--seed', chk.seed + i, '--profile', prof] + args)
        if rc != 0:
            raise vlib.ToolError('paramlog failed: ' + out[-300:])
        nev += int(out.strip().split('=')[-1])
        traces.append((trace, '%s/%s/%d' % (what, prof, i)))
    results = vlib.tlc_parallel([dict(module='Trace_Params', env={'TRACE': t}, deque=True, timeout=3000, xmx='3g',
                                      tag='Trace_Params[%s]' % n) for t, n in traces], max_parallel=12)
    ok = True
    for (t, n), r in zip(traces, results):
        ok = vlib.judge_trace(chk, r, 'Trace_Params', t, 'Trace_Params[%s]' % n, key_of=key_ev) and ok
    with open(traces[1][0] if len(traces) > 1 else traces[0][0]) as f:
        for line in list(f)[1:4]:
            chk.sample(json.loads(line))
    chk.cov['evaluations'] = nev
    chk.cov['distinct_nontrivial'] = nev - 2 * len(traces) if ok else 0
    chk.cov['rule'] = ('(a) every K in the tier\'s K set (quick: all Table-2 boundaries +-1 and 500 random; thorough: all 0..56403) '
                       'compared with Params(K); (b) (K\',X) pairs: X in 0..11, K\'-1..K\'+40, 2^24+K\'-1 and neighbours, uniform '
                       'samples, for all 477 K\', in release and overflow-checked builds; (c) the complete list of ISIs where '
                       'y+i wraps (TLC solves X = (y-B)/A mod 2^32) produced and consumed in both builds, and ISIs found by a TLC scan whose '
                       'degree draw v equals a threshold f[d] or f[d]-1 (incl. v = 0) replayed in both builds; '
                       'distinct_nontrivial = logged events (all distinct inputs)')
    chk.cov['wrap_isis'] = [(c['kp'], c['x']) for c in (cases or [])]
    chk.assumptions += ['tables frozen in spec/Rfc6330Tables.tla', 'the only wrapping additions in Rand are y+i (argued in DESIGN C15)']
