"""spec -> impl replay for the object-level properties: TLC enumerates cases with expected outcomes,
the harness replays them on the real API and reports every disagreement."""
import json, os
import vlib


def tlc_cases(chk, module, name, workers=4, timeout=1800, env=None, cfg=None):
    """Run the generating model; returns the list of emitted cases (JSON objects)."""
    res = vlib.tlc(module, cfg=cfg, workers=workers, timeout=timeout, env=env, xss='64m', tag=name, coverage=False)
    if not vlib.expect_mc_ok(chk, res, name):
        return None
    cases = []
    for l in res.out.splitlines():
        if l.startswith('"{'):
            cases.append(json.loads(json.loads(l)))
    if not cases:
        raise vlib.ToolError('%s emitted no cases' % name)
    return cases


def replay_cases(chk, exe, cases, prefix, key_of, max_report=5, timeout=3000):
    cin = vlib.workfile(prefix + '_cases.ndjson')
    cout = vlib.workfile(prefix + '_results.ndjson')
    vlib.write_ndjson(cin, cases)
    rc, out = vlib.run_drv(exe, ['objreplay', '--in', cin, '--out', cout], timeout=timeout)
    if rc != 0:
        raise vlib.ToolError('objreplay failed: ' + out[-500:])
    vlib.log('[replay] %s: %s' % (prefix, out.strip().splitlines()[-1]))
    mism = vlib.read_ndjson(cout)
    reported = 0
    seen = set()
    for m in mism:
        key = key_of(m)
        if key in seen:
            continue
        seen.add(key)
        if reported < max_report:
            if chk.violation(key, 'replayed case disagrees with the specification: %s | case=%s got=%s' % (
                    '; '.join(m['mismatch']), json.dumps(m['case'])[:300], json.dumps(m['got'])[:300]),
                    {'case': m['case'], 'got': m['got'], 'mismatch': m['mismatch'], 'kind': 'spec->impl replay'}):
                reported += 1
    if len(mism) > reported:
        chk.cov['replay_mismatches_total'] = len(mism)
    chk.cov['traces_validated_against_impl'] += len(cases) - len(mism)
    return len(mism) == 0


def limbs_to_int(l):
    return sum(x << (12 * i) for i, x in enumerate(l))
