"""Shared plumbing for /verif/check: build the harness from /repo's working tree, run TLC, parse its
output, write evidence and replay files, match known findings.

Exit codes of ./check: 0 = property held on everything explored, 1 = VIOLATION line printed,
2 = tool error / timeout (never a verdict)."""
import json, os, re, subprocess, sys, time, hashlib, shutil, tempfile, concurrent.futures

ROOT = os.path.dirname(os.path.dirname(os.path.abspath(__file__)))
SPEC = os.path.join(ROOT, 'spec')
HARNESS = os.path.join(ROOT, 'harness')
WORK = os.path.join(ROOT, 'work')
EVID = os.path.join(ROOT, 'evidence')
REPLAYS = os.path.join(ROOT, 'replays')
REPO = os.environ.get('VERIF_REPO', '/repo')
JAR = '/opt/veriftools/tla/tla2tools.jar:/opt/veriftools/tla/CommunityModules-deps.jar'
NCPU = os.cpu_count() or 4


class ToolError(Exception):
    pass


class CodePanic(Exception):
    """The code under test panicked outside a logged call (the driver reports where): data, not a tool error."""
    def __init__(self, where, args):
        super().__init__(where)
        self.where = where
        self.drv_args = args


def log(*a):
    print(*a, flush=True)


def sh(cmd, **kw):
    return subprocess.run(cmd, stdout=subprocess.PIPE, stderr=subprocess.STDOUT, text=True, **kw)


def repo_state():
    try:
        head = sh(['git', '-C', REPO, 'rev-parse', 'HEAD']).stdout.strip()
        dirty = sh(['git', '-C', REPO, 'status', '--porcelain', '--untracked-files=no']).stdout.strip()
        return {'head': head, 'dirty': bool(dirty)}
    except Exception:
        return {'head': 'unknown', 'dirty': None}


# ---------------------------------------------------------------- harness
_built = {}


def build_harness(profile='release', nostd=False):
    """cargo build (offline, incremental) of the conformance driver against /repo's current tree."""
    key = (profile, nostd)
    if key in _built:
        return _built[key]
    hdir = os.path.join(ROOT, 'harness-nostd') if nostd else HARNESS
    env = dict(os.environ, CARGO_NET_OFFLINE='true')
    cmd = ['cargo', 'build', '--offline', '--quiet']
    cmd += ['--release'] if profile == 'release' else ['--profile', profile]
    t0 = time.time()
    r = sh(cmd, cwd=hdir, env=env)
    if r.returncode != 0:
        sys.stdout.write(r.stdout[-6000:])
        raise ToolError('harness build failed (profile %s)' % profile)
    exe = os.path.join(hdir, 'target', profile, 'drv-nostd' if nostd else 'drv')
    if not os.path.exists(exe):
        raise ToolError('harness binary missing: ' + exe)
    log('[build] harness %s%s built in %.1fs' % (profile, ' (no_std)' if nostd else '', time.time() - t0))
    _built[key] = exe
    return exe


def run_drv(exe, args, timeout=3600, env=None, stdin=None):
    """Run the driver. Returns (returncode, stdout). The driver writes traces to files it is told."""
    e = dict(os.environ)
    if env:
        e.update(env)
    try:
        r = subprocess.run([exe] + [str(a) for a in args], stdout=subprocess.PIPE, stderr=subprocess.STDOUT,
                           text=True, timeout=timeout, env=e, input=stdin)
    except subprocess.TimeoutExpired:
        raise ToolError('driver timed out: %s' % ' '.join(map(str, args)))
    if r.returncode == 3 and 'PANIC-IN-CODE-UNDER-TEST' in r.stdout:
        where = [l for l in r.stdout.splitlines() if l.startswith('PANIC-IN-CODE-UNDER-TEST')][-1][len('PANIC-IN-CODE-UNDER-TEST '):]
        raise CodePanic(where, [str(a) for a in args])
    return r.returncode, r.stdout


# ---------------------------------------------------------------- TLC
class TlcResult:
    def __init__(self):
        self.rc = None
        self.out = ''
        self.generated = 0
        self.distinct = 0
        self.depth = 0
        self.ok = False
        self.invariant = None      # name of violated invariant
        self.rejected = None       # (event_index) for trace validation
        self.prints = []           # PrintT tuples / strings as text lines
        self.error = None
        self.wall = 0.0
        self.coverage = {}

    def printed(self, tag):
        """Lines printed by PrintT(<<"tag", ...>>) as raw text."""
        return [l for l in self.prints if l.startswith('<<"%s"' % tag)]


def tlc(module, cfg=None, workers=1, timeout=1800, env=None, xss='512m', xmx='4g', simulate=None,
        depth=None, extra=None, deque=False, coverage=False, cwd=SPEC, tag=None):
    """Run TLC on spec/<module>.tla. Never raises on a model violation; raises ToolError on tool trouble."""
    os.makedirs(WORK, exist_ok=True)
    meta = tempfile.mkdtemp(prefix='tlc_%s_' % module, dir=WORK)
    if coverage and xmx in ('3g', '4g'):
        xmx = '8g'          # -coverage keeps per-expression counters: needs more heap
    jopts = ['-XX:+UseParallelGC', '-Xss' + xss, '-Xmx' + xmx]
    if deque:
        jopts.append('-Dtlc2.tool.queue.IStateQueue=StateDeque')
    cmd = ['java'] + jopts + ['-cp', JAR, 'tlc2.TLC', '-workers', str(workers), '-metadir', meta,
                              '-cleanup', '-noGenerateSpecTE', '-checkpoint', '0', '-config', cfg or (module + '.cfg')]
    if simulate:
        cmd += ['-simulate', simulate]
    if depth:
        cmd += ['-depth', str(depth)]
    if coverage:
        cmd += ['-coverage', '1']
    if extra:
        cmd += extra
    cmd.append(module + '.tla')
    e = dict(os.environ)
    if env:
        e.update({k: str(v) for k, v in env.items()})
    res = TlcResult()
    res.env = {k: str(v) for k, v in (env or {}).items() if k != 'TRACE'}
    t0 = time.time()
    try:
        r = subprocess.run(cmd, cwd=cwd, stdout=subprocess.PIPE, stderr=subprocess.STDOUT, text=True,
                           timeout=timeout, env=e)
    except subprocess.TimeoutExpired:
        shutil.rmtree(meta, ignore_errors=True)
        raise ToolError('TLC timed out after %ds on %s' % (timeout, module))
    finally:
        pass
    shutil.rmtree(meta, ignore_errors=True)
    res.wall = time.time() - t0
    res.rc = r.returncode
    res.out = r.stdout
    parse_tlc(res)
    if tag:
        log('[tlc] %s: %s states=%d distinct=%d depth=%d %.1fs' % (
            tag, 'ok' if res.ok else 'NOT-OK', res.generated, res.distinct, res.depth, res.wall))
    return res


def parse_tlc(res):
    out = res.out
    m = re.search(r'(\d+) states generated, (\d+) distinct states found', out)
    if m:
        res.generated, res.distinct = int(m.group(1)), int(m.group(2))
    m = re.search(r'The depth of the complete state graph search is (\d+)', out)
    if m:
        res.depth = int(m.group(1))
    cur = None
    for line in out.splitlines():
        if line.startswith('<<') or line.startswith('"'):
            cur = line
            res.prints.append(cur)
        elif cur is not None and line.startswith(' ') and not line.startswith('  Estimates'):
            # continuation of a long printed tuple
            res.prints[-1] += ' ' + line.strip()
        else:
            cur = None
    # TLC pretty-prints long tuples as '<< "a", ... >>': normalise to the compact form
    res.prints = [re.sub(r'\s+>>', '>>', re.sub(r'<<\s+', '<<', l)) for l in res.prints]
    m = re.search(r'Invariant (\S+) is violated', out)
    if m:
        res.invariant = m.group(1)
    m = re.search(r'Action property (\S+) is violated|Temporal properties were violated', out)
    if m and not res.invariant:
        res.invariant = m.group(1) or 'temporal'
    for l in res.prints:
        mm = re.match(r'<<"REJECTED", (\d+)', l)
        if mm:
            res.rejected = int(mm.group(1))
    if 'Parsing or semantic analysis failed' in out or '***Parse Error***' in out:
        res.error = 'parse'
    elif re.search(r'Error: (?!.*Invariant)(?!.*violated)', out) and not res.invariant and res.rejected is None \
            and 'Assumption' not in out and 'postcondition' not in out.lower():
        mm = re.search(r'Error: .*', out)
        res.error = mm.group(0) if mm else 'error'
    finished = ('Model checking completed. No error has been found.' in out) or \
               (res.rc == 0 and 'Finished in' in out)
    res.ok = finished and res.rc == 0 and res.invariant is None and res.rejected is None and res.error is None
    # coverage lines:  <Action line .. of module M>: distinct:generated
    for mm in re.finditer(r'^<(\w+) line \d+, col \d+ to line \d+, col \d+ of module (\w+)>: (\d+):(\d+)', out, re.M):
        res.coverage[mm.group(2) + '!' + mm.group(1)] = [int(mm.group(3)), int(mm.group(4))]
    return res


def tlc_parallel(jobs, max_parallel=None):
    """jobs: list of dicts of tlc() kwargs. Runs them as independent processes."""
    max_parallel = max_parallel or max(1, NCPU - 2)
    results = [None] * len(jobs)
    with concurrent.futures.ThreadPoolExecutor(max_workers=max_parallel) as ex:
        futs = {ex.submit(lambda kw: tlc(**kw), j): i for i, j in enumerate(jobs)}
        for f in concurrent.futures.as_completed(futs):
            results[futs[f]] = f.result()
    return results


def apalache(module_path, args, timeout=1800):
    """apalache-mc check ...; returns (outcome, output) with outcome 'NoError' | 'Error' | None (tool failure)."""
    out_dir = os.path.join(WORK, 'apalache-out')
    cmd = ['timeout', str(timeout), 'apalache-mc', 'check', '--out-dir=' + out_dir] + args + [os.path.basename(module_path)]
    t0 = time.time()
    r = subprocess.run(cmd, cwd=os.path.dirname(module_path), stdout=subprocess.PIPE, stderr=subprocess.STDOUT, text=True)
    m = re.search(r'The outcome is: (\w+)', r.stdout)
    outcome = m.group(1) if m else None
    log('[apalache] %s %s: %s %.1fs' % (os.path.basename(module_path), ' '.join(a for a in args if not a.startswith('--cinit')), outcome, time.time() - t0))
    return outcome, r.stdout


def tlc_tool_failure(res, what):
    """A TLC run that neither passed nor produced a verdict is a tool error."""
    tail = '\n'.join(res.out.splitlines()[-40:])
    sys.stdout.write(tail + '\n')
    raise ToolError('TLC failed without a verdict on %s (%s)' % (what, res.error))


# ---------------------------------------------------------------- traces
def read_ndjson(path):
    with open(path) as f:
        return [json.loads(l) for l in f if l.strip()]


def write_ndjson(path, events):
    with open(path, 'w') as f:
        for e in events:
            f.write(json.dumps(e, separators=(',', ':')) + '\n')


def workfile(name):
    os.makedirs(WORK, exist_ok=True)
    return os.path.join(WORK, name)


# ---------------------------------------------------------------- known findings
def norm_key(key):
    """Keys identify the failing input / call site; they are written without blanks so that they fit the one-line
    format of known_findings.txt."""
    return re.sub(r'[\s"]+', '_', str(key)).strip('_')[:240]


def load_findings():
    """known_findings.txt:  'finding: property=<id> key=<key> <text>'  suppresses exactly that key;
    'fixed: property=<id> <commit> <text>' is a record only and suppresses nothing."""
    path = os.path.join(ROOT, 'known_findings.txt')
    out = []
    if os.path.exists(path):
        for line in open(path):
            line = line.strip()
            m = re.match(r'finding:\s+property=(\S+)\s+key=(\S+)\s+(.*)', line)
            if m:
                out.append({'property': m.group(1), 'key': norm_key(m.group(2)), 'text': m.group(3)})
    return out


# ---------------------------------------------------------------- check context
class Check:
    def __init__(self, prop, tier, seed, level):
        self.prop = prop
        self.tier = tier
        self.seed = seed
        self.level = level
        self.t0 = time.time()
        self.cov = {'states': 0, 'transitions': 0, 'traces_validated_against_impl': 0, 'evaluations': 0,
                    'distinct_nontrivial': 0, 'samples': [], 'rule': '', 'tlc_runs': []}
        self.assumptions = []
        self.violations = []       # list of dict(key, what, replay)
        self.deviations = []       # observed behaviour outside the model although every property-level condition held
        self.known = []
        self.findings = [f for f in load_findings() if f['property'] == prop]

    @property
    def quick(self):
        return self.tier == 'quick'

    def add_tlc(self, res, name, trace=False):
        self.cov['states'] += res.distinct
        self.cov['transitions'] += res.generated
        self.cov['tlc_runs'].append({'name': name, 'distinct': res.distinct, 'generated': res.generated,
                                     'depth': res.depth, 'wall_s': round(res.wall, 1)})
        if res.coverage:
            self.cov.setdefault('coverage_actions', {}).update(res.coverage)

    def sample(self, obj, limit=6):
        if len(self.cov['samples']) < limit:
            s = json.dumps(obj)
            if len(s) > 1500:
                s = s[:1500] + '...'
                obj = s
            self.cov['samples'].append(obj)

    def violation(self, key, what, replay_obj):
        """Record a violation; a listed known finding with the same key is reported as such instead."""
        key = norm_key(key)
        for f in self.findings:
            if f['key'] == key:
                log('KNOWN-FINDING: property=%s %s [%s]' % (self.prop, f['text'], key))
                self.known.append(key)
                return False
        d = os.path.join(REPLAYS, self.prop)
        os.makedirs(d, exist_ok=True)
        name = '%s_%s.json' % (time.strftime('%Y%m%d_%H%M%S'), hashlib.sha1(key.encode()).hexdigest()[:8])
        path = os.path.join(d, name)
        replay_obj = dict(replay_obj, property=self.prop, key=key, what=what, tier=self.tier, seed=self.seed,
                          repo=repo_state())
        with open(path, 'w') as f:
            json.dump(replay_obj, f, indent=1)
        log('VIOLATION property=%s replay=%s' % (self.prop, path))
        log('  ' + what)
        log('  key=' + key)
        self.violations.append({'key': key, 'what': what, 'replay': path})
        return True

    def deviation(self, key, what, obj):
        """The implementation left the model's behaviours but everything the property itself demands held on what was
        observed (e.g. another eviction order, another admissible solver step): reported, recorded, NOT an alarm."""
        key = norm_key(key)
        d = os.path.join(REPLAYS, self.prop)
        os.makedirs(d, exist_ok=True)
        path = os.path.join(d, 'deviation_%s_%s.json' % (time.strftime('%Y%m%d_%H%M%S'), hashlib.sha1(key.encode()).hexdigest()[:8]))
        with open(path, 'w') as f:
            json.dump(dict(obj, property=self.prop, key=key, what=what, tier=self.tier, seed=self.seed, repo=repo_state()), f, indent=1)
        log('MODEL-DEVIATION: property=%s (no property-level condition failed; the specification should be re-aligned) %s details=%s' % (self.prop, what, path))
        self.deviations.append({'key': key, 'what': what, 'details': path})

    def finish(self, write_evidence=True):
        self.cov['samples'] = self.cov['samples'] or ['(none recorded)']
        ev = {
            'property_id': self.prop, 'tier': self.tier, 'seed': self.seed, 'level': self.level,
            'coverage': self.cov, 'assumptions': self.assumptions,
            'wall_s': round(time.time() - self.t0, 1), 'violations': len(self.violations),
            'known_findings_hit': self.known, 'model_deviations': self.deviations, 'repo': repo_state(),
        }
        if write_evidence:
            os.makedirs(EVID, exist_ok=True)
            with open(os.path.join(EVID, self.prop + '.json'), 'w') as f:
                json.dump(ev, f, indent=1)
        log('[%s] tier=%s states=%d transitions=%d traces=%d evaluations=%d nontrivial=%d violations=%d wall=%.0fs' % (
            self.prop, self.tier, self.cov['states'], self.cov['transitions'],
            self.cov['traces_validated_against_impl'], self.cov['evaluations'], self.cov['distinct_nontrivial'],
            len(self.violations), time.time() - self.t0))
        return 1 if self.violations else 0


def expect_mc_ok(chk, res, name, replay_extra=None):
    """Exhaustive model run of the spec itself: an invariant violation there is a violation of the
    property on the specification (reported), anything else is a tool error."""
    chk.add_tlc(res, name)
    if res.ok:
        return True
    if res.invariant:
        chk.violation('spec:%s:%s' % (name, res.invariant),
                      'specification invariant %s violated in %s' % (res.invariant, name),
                      dict(replay_extra or {}, tlc_tail=res.out.splitlines()[-60:]))
        return False
    tlc_tool_failure(res, name)


def validate_trace(chk, module, trace_path, name=None, timeout=1800, env=None, nruns=1, xss='512m', xmx='4g',
                   key_of=None, cfg=None, resume=0, resume_to=None):
    """Trace validation impl->spec: TLC must consume every event of the ndjson file.
    On rejection: VIOLATION with the longest accepted prefix position and the first unmatched event.
    key_of(event, mismatch_lines) -> stable key for known-finding matching.
    resume=N: after a rejection the rejected event (or, with resume_to, everything up to the next event whose
    "ev" equals resume_to) is cut out and validation continues on the rest, at most N times, so that one
    finding does not leave the remainder of the trace unexamined."""
    name = name or module
    allok = True
    cur = trace_path
    offset = 0
    for attempt in range(resume + 1):
        e = {'TRACE': cur}
        if env:
            e.update(env)
        res = tlc(module, cfg=cfg, workers=1, timeout=timeout, env=e, deque=True, xss=xss, xmx=xmx,
                  tag=name + ('' if attempt == 0 else '(resumed %d)' % attempt))
        ok = judge_trace(chk, res, module, cur, name, nruns if attempt == 0 else 0, key_of, offset=offset)
        if ok:
            return allok
        allok = False
        if res.rejected is None or attempt == resume:
            return False
        with open(cur) as f:
            lines = f.readlines()
        cut = res.rejected            # 1-based index of the rejected line
        if resume_to:
            while cut < len(lines) and json.loads(lines[cut]).get('ev') != resume_to:
                cut += 1
        rest = lines[cut:]
        if not [l for l in rest if json.loads(l).get('ev') not in ('end', 'meta')]:
            return False
        nxt = trace_path + '.resume%d' % (attempt + 1)
        with open(nxt, 'w') as f:
            f.write(lines[0] if json.loads(lines[0]).get('ev') == 'meta' else '{"ev":"meta"}\n')
            f.writelines(rest)
        offset += cut - 1
        cur = nxt
    return allok


def keep_trace(prop, trace_path, limit=40 << 20):
    """Copy a rejected trace next to the replay files so that ./check --replay can re-run it later."""
    try:
        if os.path.getsize(trace_path) > limit:
            return None
        d = os.path.join(REPLAYS, prop)
        os.makedirs(d, exist_ok=True)
        dst = os.path.join(d, '%s_%s' % (time.strftime('%Y%m%d_%H%M%S'), os.path.basename(trace_path)))
        shutil.copy(trace_path, dst)
        return dst
    except Exception:
        return None


REPLAY_DRIVERS = {'accept': 'objreplay', 'derive': 'objreplay', 'wire': 'objreplay', 'layout': 'objreplay',
                  'wrap': 'wrapreplay', 'edge': 'wrapreplay'}


def generic_replay(chk, path):
    """./check Cxx --replay file: re-run exactly the rejected trace through TLC, or the disagreeing case through the
    replay driver, against the current tree."""
    r = json.load(open(path))
    exe = build_harness('release')
    if r.get('module') and r.get('trace') and os.path.exists(r['trace']):
        env = dict(r.get('tlc_env') or {})
        env['TRACE'] = r['trace']
        res = tlc(r['module'], workers=1, env=env, deque=True, timeout=3600, tag='replay ' + r['module'])
        judge_trace(chk, res, r['module'], r['trace'], 'replay:' + r['module'])
        log('note: the trace was recorded from the tree at the time of the violation; re-run the check to record a new one')
    elif r.get('case') is not None:
        case = r['case']
        kind = case.get('kind')
        cin = workfile('replay_case.ndjson')
        cout = workfile('replay_result.ndjson')
        if kind in REPLAY_DRIVERS:
            write_ndjson(cin, [case])
            args = [REPLAY_DRIVERS[kind], '--in', cin, '--out', cout] + (['--codec'] if kind == 'wrap' else [])
            e = build_harness('checked') if r.get('profile') == 'checked' else exe
            rc, out = run_drv(e, args)
            log(out.strip())
            for m in read_ndjson(cout):
                chk.violation(r.get('key', 'replay'), 'replayed case still disagrees: ' + '; '.join(m['mismatch'])[:400], {'case': case, 'got': m.get('got'), 'mismatch': m['mismatch']})
        elif 'steps' in case:
            write_ndjson(cin, [case])
            rc, out = run_drv(exe, ['plancache-replay', '--in', cin, '--out', cout])
            log(out.strip())
            for m in read_ndjson(cout):
                chk.violation(r.get('key', 'replay'), 'forced schedule still disagrees: ' + '; '.join(m['mismatch'])[:400], {'case': case, 'mismatch': m['mismatch']})
        else:
            raise ToolError('this replay file holds only an excerpt of the failing history; re-run ./check %s to regenerate it' % chk.prop)
    else:
        raise ToolError('replay file has neither a trace nor a case (or the trace file is gone): ' + path)
    chk.cov['evaluations'] = 1
    chk.cov['distinct_nontrivial'] = 2
    chk.cov['rule'] = 'replay of ' + path


def judge_trace(chk, res, module, trace_path, name, nruns=1, key_of=None, offset=0, depth=0, advisory=None):
    """advisory: None - a rejection is a violation; True - the trace spec only describes HOW the code works (a rejection
    is a model deviation, reported but not an alarm); callable(trace_path) -> bool - decides, e.g. by validating the
    same trace against a specification of the property-level conditions alone, whether those still hold."""
    chk.add_tlc(res, name, trace=True)
    if res.ok:
        chk.cov['traces_validated_against_impl'] += nruns
        return True
    if res.rejected is not None or res.invariant:
        idx = res.rejected
        ev = None
        if idx is not None:
            try:
                with open(trace_path) as f:
                    for n, line in enumerate(f, 1):
                        if n == idx:
                            ev = json.loads(line)
                            break
            except Exception:
                ev = None
        mism = res.printed('MISMATCH')
        evs = json.dumps(ev)
        if ev is not None and len(evs) > 4000:
            ev = {'truncated': evs[:4000]}
        key = None
        if key_of:
            try:
                key = key_of(ev, mism)
            except Exception:
                key = None
        if key is None:
            key = '%s:event%s:%s' % (name, idx, res.invariant)
        what = 'trace %s rejected by %s at event %s' % (os.path.basename(trace_path), module, idx if idx is None else idx + offset)
        if res.invariant:
            what += ' (invariant %s)' % res.invariant
        if mism:
            what += ' ' + ' | '.join(mism[:3])
        kept = keep_trace(chk.prop, trace_path)
        if advisory is not None and depth == 0:
            holds = advisory if isinstance(advisory, bool) else bool(advisory(trace_path))
            if holds:
                chk.deviation(key, what, {'module': module, 'trace': kept or trace_path, 'event_index': idx, 'event': ev,
                                          'mismatch': mism[:10], 'tlc_tail': res.out.splitlines()[-30:]})
                return True
        reported = chk.violation(key, what, {'module': module, 'trace': kept or trace_path, 'event_index': idx, 'event': ev, 'tlc_env': getattr(res, 'env', {}),
                                             'mismatch': mism[:10], 'invariant': res.invariant,
                                             'tlc_tail': res.out.splitlines()[-30:]})
        if not reported and idx is not None and depth < 8:
            # a listed known finding: it must not hide a different violation later in the same trace - cut the event
            # (for multi-step histories everything up to the next configuration) and validate the rest
            with open(trace_path) as f:
                lines = f.readlines()
            cut = idx
            while cut < len(lines) and json.loads(lines[cut]).get('ev') not in ('cfg', 'end', 'plan', 'solve', 'stat', 'block', 'row', 'lin', 'scn') \
                    and module in ('Trace_Codec', 'Trace_Kernels', 'Trace_PlanCache', 'Trace_Stream'):
                cut += 1
            rest = [l for l in lines[cut:]]
            if [l for l in rest if json.loads(l).get('ev') not in ('end', 'meta')]:
                nxt = trace_path + '.after_known%d' % (depth + 1)
                with open(nxt, 'w') as f:
                    f.write(lines[0] if json.loads(lines[0]).get('ev') == 'meta' else '{"ev":"meta"}\n')
                    f.writelines(rest)
                env = dict(getattr(res, 'env', {}))
                env['TRACE'] = nxt
                res2 = tlc(module, workers=1, timeout=3600, env=env, deque=True, tag=name + ' (after known finding)')
                return judge_trace(chk, res2, module, nxt, name, 0, key_of, offset=offset + cut - 1, depth=depth + 1) and False
        return False
    tlc_tool_failure(res, name)
