//! The C07 scenario driver against raptorq built with `default-features = false` (no_std).
#[path = "../../harness/src/scn.rs"]
mod scn;

fn main() {
    let args: Vec<String> = std::env::args().collect();
    let out = args.iter().position(|a| a == "--out").map(|i| args[i + 1].clone()).unwrap_or("nostd.ndjson".into());
    let seed: u64 = args.iter().position(|a| a == "--seed").map(|i| args[i + 1].parse().unwrap()).unwrap_or(1);
    let thorough = args.iter().any(|a| a == "thorough");
    scn::run_all(&out, seed, "release-nostd", thorough);
}
