#!/bin/bash
# run every check of one tier on the current tree from the directory this script lives in (works in a `vp run` snapshot);
# usage: tools/run_tier.sh quick|thorough [ids...]
here=$(cd "$(dirname "$0")/.." && pwd)
cd "$here"
tier=${1:-quick}; shift
ids=${@:-C10 C13 C19 C05 C14 C15 C04 C06 C01 C02 C03 C08 C18 C09 C07 C11 C12 C16 C17}
mkdir -p work
# in a `vp run --with-repo` snapshot the checks build against the snapshot of /repo, so that /repo itself stays free
if [ -n "$VP_RUN_REPO" ] && [ -d "$VP_RUN_REPO/src" ]; then
  sed -i "s#path = \"/repo\"#path = \"$VP_RUN_REPO\"#" harness/Cargo.toml harness-nostd/Cargo.toml
  export VERIF_REPO="$VP_RUN_REPO"
  echo "building against $VP_RUN_REPO"
fi
if [ ! -x harness/target/release/drv ]; then
  (cd harness && cargo build --offline --release 2>&1 | tail -1; cargo build --offline --profile checked 2>&1 | tail -1)
  (cd harness-nostd && cargo build --offline --release 2>&1 | tail -1)
fi
for p in $ids; do
  start=$(date +%s)
  ./check $p --tier $tier > work/run_${tier}_$p.log 2>&1
  rc=$?
  echo "$p rc=$rc $(( $(date +%s) - start ))s $(tail -1 work/run_${tier}_$p.log)"
  if [ $rc -ne 0 ]; then grep -E "VIOLATION|TOOL-ERROR" -A1 work/run_${tier}_$p.log | head -6; fi
done
