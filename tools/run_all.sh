#!/bin/bash
# run every check of one tier on the current tree, sequentially; summary at the end
tier=${1:-quick}
cd /verif
for p in C10 C13 C19 C05 C14 C15 C04 C06 C01 C02 C03 C08 C18 C09 C07 C11 C12 C16 C17; do
  start=$(date +%s)
  ./check $p --tier $tier > work/run_all_$p.log 2>&1
  rc=$?
  echo "$p rc=$rc $(( $(date +%s) - start ))s $(tail -1 work/run_all_$p.log)"
done
