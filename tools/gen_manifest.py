#!/usr/bin/env python3
"""Writes /verif/MANIFEST.json from the table below (single source of truth for what is claimed)."""
import json, os
ROOT = os.path.dirname(os.path.dirname(os.path.abspath(__file__)))
ALL = ['C%02d' % i for i in range(1, 20)]

CLAIMED = {
 'C10': dict(
    category='model_checking',
    text='The spec field (GF256.tla, built from the polynomial 0x11D) is checked against all field axioms over all 2^24 '
         'triples by TLC; every result of the implementation\'s scalar operators and every cell of its derived tables '
         '(product, exp, log, both nibble tables) is then validated against that field by TLC - exhaustive on both sides, '
         'which is the right level for a finite domain.',
    note='Trusted: TLC, the transcription of the defining polynomial; the harness only dumps values (no comparison in Rust).',
    technique='TLA+ field definition model-checked exhaustively (TLC) + exhaustive trace validation of implementation tables',
    design='4/C10'),
}

NOT_YET = 'check not built yet in this round (work in progress; see DESIGN.md section 8 for the order of work)'


def main():
    checks = []
    for pid in ALL:
        if pid not in CLAIMED:
            continue
        c = CLAIMED[pid]
        checks.append({
            'property_id': pid,
            'quick_cmd': './check %s --tier quick' % pid,
            'thorough_cmd': './check %s --tier thorough' % pid,
            'evidence_file': '/verif/evidence/%s.json' % pid,
            'replay_cmd_template': './check %s --replay {path}' % pid,
            'engine': 'tla-trace',
            'level_claimed': {'category': c['category'], 'text': c['text'], 'design_ref': 'DESIGN.md ' + c['design']},
            'level_note': c['note'],
            'technique': c['technique'],
        })
    na = [{'property_id': p, 'reason': NA.get(p, NOT_YET)} for p in ALL if p not in CLAIMED]
    man = {
        'version': 1,
        'setup_cmd': 'cd /verif/harness && cargo build --offline --release 2>&1 | tail -3',
        'hooks': {
            'guard': '--cfg raptorq_verif',
            'enable': 'harness/.cargo/config.toml passes rustflags --cfg raptorq_verif; the harness depends on /repo by path '
                      'with feature "benchmarking"',
            'baseline_off_cmd': 'cd /repo && cargo test --workspace --no-fail-fast --offline',
            'source_commits': HOOK_COMMITS,
            'add_only': True,
        },
        'engines': [{
            'name': 'tla-trace', 'path': '/verif/spec',
            'serves_properties': sorted(CLAIMED),
            'kind_free_text': 'explicit TLA+ specification (spec/*.tla) model-checked with TLC; Rust conformance driver '
                              '(harness/) emits ndjson traces validated by TLC trace specs, and replays TLC-generated '
                              'behaviours on the real objects',
        }],
        'checks': checks,
        'not_applicable': na,
        'notes': 'All checks: ./check <id> --tier quick|thorough; exit 0/1/2 (2 = tool error). Known findings: known_findings.txt.',
    }
    with open(os.path.join(ROOT, 'MANIFEST.json'), 'w') as f:
        json.dump(man, f, indent=1)
        f.write('\n')


NA = {}
HOOK_COMMITS = ['7b4caa9']

if __name__ == '__main__':
    main()
