#!/usr/bin/env python3
"""Writes /verif/MANIFEST.json from the table below (single source of truth for what is claimed)."""
import json, os
ROOT = os.path.dirname(os.path.dirname(os.path.abspath(__file__)))
ALL = ['C%02d' % i for i in range(1, 20)]

CLAIMED = {
 'C10': dict(
    category='model_checking',
    text='The spec field (GF256.tla, built from the polynomial 0x11D) is checked against all field axioms over all 2^24 '
         'triples by TLC; every result of the implementation\'s scalar operators and every cell of its derived tables '
         '(product, exp, log, both nibble tables) is then validated against that field by TLC - exhaustive on both sides, '
         'which is the right level for a finite domain.',
    note='Trusted: TLC, the transcription of the defining polynomial; the harness only dumps values (no comparison in Rust).',
    technique='TLA+ field definition model-checked exhaustively (TLC) + exhaustive trace validation of implementation tables',
    design='4/C10'),
 'C04': dict(
    category='model_checking',
    text='An independent executable RFC 6330 in TLA+ (Rfc6330.tla: field, Rand, Deg, Tuple, Enc, LDPC/HDPC from MT x GAMMA, '
         'Gaussian elimination) is evaluated by TLC. For small K TLC solves the constraint system itself and every source and '
         'repair packet of the real encoder must equal the spec value byte for byte; for every K\' TLC certifies that the '
         'implementation\'s intermediate symbols satisfy every RFC relation (hence are the unique solution) and recomputes the '
         'packets from them. Bounded (sampled ESIs, T<=4) but with an oracle that shares no code with the implementation.',
    note='Trusted: TLC; tables V0..V3/Table 2 frozen in spec/Rfc6330Tables.tla (transcribed from the baseline tree); '
         'invertibility of A above the K\' where TLC computes the rank; byte-column independence (C09) for larger T.',
    technique='TLA+ reference specification of RFC 6330 evaluated by TLC; trace validation of encoder output (full solve / certificate)',
    design='4/C04'),
 'C06': dict(
    category='model_checking',
    text='For each K\' (quick: 11 sizes incl. 1698, 8837, 56403; thorough: all 477) the real encoder is built by every route '
         '(dense/sparse x direct/plan replay, cached plan, explicit plan); TLC checks every LDPC, HDPC and LT relation of the RFC on '
         'the resulting intermediate symbols and that all routes agree; TLC also proves rank(A)=L from the spec for small K\'.',
    note='Trusted: TLC, frozen tables. Construction failure (panic/None) is an event the spec rejects. T=1 (one case T=2).',
    technique='TLC trace validation of intermediate symbols against the TLA+ pre-code relations; TLC rank computation (MC_Rank)',
    design='4/C06'),
 'C19': dict(
    category='model_checking',
    text='Accept(F,T,Z,Al) is specified over multi-limb naturals (TLC integers are 32-bit) and checked by TLC against an '
         'independent formulation (F <= 56403*Z*T). TLC enumerates the boundary lattice - it computes where each limit lies, '
         'incl. k*2^32*T where 32-bit quotients wrap - and every case is replayed on the real constructor (verdict + accessor '
         'echo); random tuples are validated in the other direction by a TLC trace spec.',
    note='Trusted: TLC, BigNat limb arithmetic (cross-checked by the AcceptEquivProduct invariant); panics are caught and are data.',
    technique='TLC-enumerated boundary cases replayed on the constructor (spec->impl) + TLC trace validation of random calls (impl->spec)',
    design='4/C19'),
 'C14': dict(
    category='model_checking',
    text='RFC 6330 4.3 is specified on multi-limb naturals; TLC enumerates (F, P\', WS) on the decision boundaries it computes '
         '(budgets at K\'*Al*ceil(T/(Al*n)) and one below, quotients beyond 32 bits, F filling Z blocks +-1 byte), checks '
         'T-maximal / Z-minimal / N-minimal / constructible / monotone-in-WS on every case, and each case is replayed on the '
         'real derivation through three routes incl. a full encode/decode round trip; random inputs are trace-validated by TLC.',
    note='Trusted: TLC, BigNat; Al=SS=8 for P\'>=64 else 1 is the crate\'s choice; outside "a valid configuration exists" any outcome is accepted.',
    technique='TLC-enumerated boundary cases with spec invariants, replayed on the derivation (spec->impl) + TLC trace validation (impl->spec)',
    design='4/C14'),
 'C13': dict(
    category='model_checking',
    text='The byte layouts are TLA+ operators; TLC checks on the spec that parsing inverts serialising and that re-serialising a '
         'parsed buffer reproduces it except for the reserved byte, over an enumeration that sweeps every byte position through all '
         '256 values (the layouts are byte-wise independent). All ~27 000 cases are replayed on the real types (spec->impl) and '
         'random values/buffers are validated by a TLC trace spec (impl->spec).',
    note='Trusted: TLC; byte-wise independence of the layouts as the argument why the sweep covers the 2^32 / 2^88 spaces.',
    technique='TLC-enumerated wire cases replayed on serialise/parse + TLC trace validation of random values and buffers',
    design='4/C13'),
 'C15': dict(
    category='model_checking',
    text='MC_Params checks the Table-2 relations for all 477 rows exhaustively (S, W prime; P1 least prime >= P; B>=1; P>=H>=2; '
         'L<65536; K\' strictly increasing) and solves, by modular inversion on byte limbs, for every internal symbol ID at which '
         'the 32-bit value y wraps - the complete list of inputs where an overflow-checked build can differ. Those and tens of '
         'thousands of (K\',X) pairs are run through the real functions in optimised and overflow-checked builds and validated '
         'by TLC against Tuple[K\',X] and the range conditions; a panic is never accepted.',
    note='Trusted: TLC, frozen tables, Nat32 limb arithmetic (checked by the WrapSolved invariant). Not all 8*10^9 pairs are run: '
         'the wrap analysis covers the only data-dependent hazard, sampling covers the rest.',
    technique='TLC exhaustive check of Table 2 + TLC-solved boundary inputs replayed in two build profiles + TLC trace validation of tuples',
    design='4/C15'),
 'C05': dict(
    category='model_checking',
    text='TLC enumerates every (F,T,Z,N,Al) in a box (plus directed larger shapes) and derives from Partition and the sub-block '
         'rule of RFC 4.4.1.2 alone the exact source packet list; invariants on the spec (partition identities, every object byte '
         'exactly once, only the tail of the last block padded). Every case is replayed: the real encoder\'s packet list must be '
         'identical and the real decoder must return the object from those packets.',
    note='Trusted: TLC; Data(i) formula shared by spec and harness. Exhaustive inside the box, directed outside.',
    technique='TLC-enumerated configurations with expected packet lists, replayed on Encoder/Decoder (spec->impl)',
    design='4/C05'),
 'C01': dict(
    category='model_checking',
    text='spec/Codec.tla: per block the set of received ESIs and a reconstructed flag; a block completes at the first delivery '
         'after which AllSource or rank(A(K,S)) = L over GF(256) (TLC computes the rank from the RFC definitions). MC_Codec explores '
         'every arrival order/duplication/clone point of a small universe exhaustively. Every call of the real Decoder in generated '
         'histories is validated as a step of that machine and its bytes compared with the original. Liveness under a fair channel '
         '(EventuallyAnswers) is model-checked, and MC_Decode shows on the spec\'s own arithmetic that full rank implies the Gauss-Jordan '
         'solution of the received system reproduces the source octets.',
    note='Trusted: TLC, frozen tables; exact rank for K\' <= 60 (quick) / 110 (thorough), learned-consistency mode above; packets '
         'are the real encoder\'s (their content is C04).',
    technique='TLC exhaustive model (MC_Codec) + TLC trace validation of real decoder histories against the Codec state machine',
    design='4/C01'),
 'C02': dict(
    category='model_checking',
    text='At every call of SourceBlockDecoder::decode in sequences built to sit on the decoding threshold (K, K+1, K+2 symbols; '
         'batches that trigger the GF(2)-only attempt and its fall-back; both matrix back-ends) Some/None must equal '
         'AllSource or full rank as computed by TLC; in addition random K and K+1 subsets are decoded and every failure is '
         'certified rank deficient by TLC, so both directions (lost decode / answer for an undecodable set) are exercised.',
    note='Trusted: TLC rank oracle, frozen tables. Exact for K\' <= 60 (quick) / 110 (thorough).',
    technique='TLC trace validation with a GF(256) rank oracle evaluated by TLC at every prefix',
    design='4/C02'),
 'C03': dict(
    category='exploration',
    text='Statistical: 2.1*10^6 (quick) / 2.5*10^7 (thorough) random (K+h)-subsets decoded by the real decoder; TLC certifies every '
         'reported failure as a genuine rank deficiency and checks the aggregated failure frequencies against the advertised '
         'bounds in a postcondition that only applies at sample sizes where a correct implementation cannot exceed them by chance.',
    note='A probability can only be sampled; fixed K list; random loss patterns only.',
    technique='sampling with TLC-certified failures and TLC-checked rate bounds',
    design='4/C03'),
 'C08': dict(
    category='model_checking',
    text='MC_Codec checks SetDetermined (answer is a function of the received sets), Stable, SameSetsSameAnswer over all paths of a '
         'small universe. For each packet multiset 6-9 real histories (permutations, duplicates, batches, both APIs, clones, '
         'post-completion deliveries) are validated against the same set-determined machine, so histories of one set that end '
         'differently cannot both be accepted.',
    note='As C01.',
    technique='TLC exhaustive model + TLC trace validation of multiple histories per packet set',
    design='4/C08'),
 'C18': dict(
    category='model_checking',
    text='Packet(b,X) is a function of block and ESI in the spec; windows, overlapping windows, single requests, independently '
         'generated plans, the whole-object encoder and get_encoded_packets are validated by TLC: identifiers, order, distinctness, '
         'and payload equal to the RFC oracle (TLC solve, K<=26) or to the first observation of that (b,X).',
    note='Trusted: TLC; N=1 configurations.',
    technique='TLC trace validation against a functional Packet(b, ESI) specification with RFC oracle',
    design='4/C18'),
 'C11': dict(
    category='model_checking',
    text='Kernels.tla defines the four bulk operations element-wise over the spec field, the packed-bit layout and the frame '
         'condition; MC_Kernels checks the algebra exhaustively on a small arena over GF(4). Every kernel variant this CPU '
         'supports (AVX-512, AVX2, SSSE3, portable; called individually through the hook) and the four public dispatchers are '
         'run on chained windows of one arena - all lengths 0..132 and up to 300, 6/64 alignments, all 256 scalars at 15 lengths - '
         'and every call is validated by TLC as a step of the spec, incl. canary margins.',
    note='Trusted: TLC, GF256 (C10). NEON is not compiled on this host. Forbidden scalars (0/1) only in the release profile.',
    technique='TLC exhaustive small model + TLC trace validation of every kernel call against element-wise field semantics',
    design='4/C11'),
 'C12': dict(
    category='other',
    text='Partial, behavioural: what a trace can show of memory safety. Kernel and codec workloads re-run in child processes under a '
         'guard-page allocator (every allocation flush against a PROT_NONE page, end- and start-flush): a stray access kills the '
         'child, which the trace spec rejects; frame condition with canaries; every paired borrow of the slab validated '
         'disjoint/in-bounds by a TLC trace spec; table index bounds by C10. No claim about UB that neither faults nor changes a value.',
    note='Not a memory-safety proof: reads inside alignment slack and aliasing UB are not observable behaviourally; deliberately not '
         'replaced by Miri/ASan (different technique family).',
    technique='TLC trace validation of workloads run under a guard-page allocator (crash = rejected trace) + slab borrow trace spec',
    design='4/C12'),
 'C09': dict(
    category='model_checking',
    text='The specification\'s Enc is linear per byte column by construction (TLC confirms it on the spec for a small block); the '
         'implementation is validated relationally by TLC for every symbol size T in 1..130 (thorough 1..300): packets of A xor B, '
         'c*A (spec field product) and of every byte column of A alone must match position-wise, through new() and through one '
         'encoding plan reused across all T.',
    note='Trusted: TLC, GF256 (C10). Relational check: absolute correctness of the packets is C04.',
    technique='TLC trace validation of linearity and byte-column independence relations over all symbol-size residues',
    design='4/C09'),
 'C07': dict(
    category='model_checking',
    text='One seeded workload (encode, five decode sets per block, whole objects) is run under every configuration: {release, '
         'debug-assertions+overflow-checks} x {auto, AVX-512, AVX2, SSSE3, portable kernels forced through the hook} x {new, explicit '
         'plan, threshold 0/250/inf x direct/plan} (decoding: threshold 0/250/inf), plus a no_std build. TLC validates that the '
         'outcome of each scenario is a function of the scenario alone (first configuration fixes it, all others must be equal).',
    note='Trusted: TLC; FNV digests for outputs above 1500 bytes; the common outcome is checked against the RFC oracle on the default '
         'configuration by C04/C01. NEON not available on this host.',
    technique='TLC trace validation of a configuration-independence specification over ~120 build/CPU/back-end/plan configurations',
    design='4/C07'),
 'C17': dict(
    category='model_checking',
    text='PlanCache.tla models get-or-generate as the code does it (lookup critical section, unlocked generation, insert critical '
         'section with second look-up, FIFO eviction). TLC explores all interleavings of 3 threads x 2 requests exhaustively '
         '(Bounded, Bijection, RightPlanCached, Transparent) and prints every interleaving of three concurrent requests against a '
         'cache pre-filled to 63 and 64 plans; each of the ~2000 schedules is forced on real threads through the yield hook and map, '
         'FIFO and plan identities are compared after every critical section. Free-running 16-thread executions are logged under the '
         'mutex and validated by TLC as behaviours of the same spec. Apalache shows the invariant inductive (any number of requests; 3 threads, '
         'capacity <= 4). A rejection that breaks no property-level condition (e.g. another eviction order) is a MODEL-DEVIATION, not a violation.',
    note='Trusted: TLC; hook placement (yield immediately before lock(), event while the mutex is held). Forced schedules cover 3 '
         'threads / one request each on the real cache; larger mixes only free-running.',
    technique='TLC exhaustive interleaving model + TLC-generated schedules forced on real threads + TLC trace validation of concurrent logs',
    design='4/C17'),
 'C16': dict(
    category='model_checking',
    text='Matrix.tla is the abstract bit matrix with the interface\'s preconditions and the bookkeeping they refer to (dense tail, '
         'column index, stale columns, undefined cells). TLC checks it exhaustively on tiny shapes (well-formedness, row-space '
         'preservation) and generates, in simulation mode, operation histories that follow the solver\'s usage on shapes around the '
         '64-bit word boundaries with tails grown across 64 and 128 columns; every query answer and periodic full snapshots are '
         'replayed on both DenseBinaryMatrix and SparseBinaryMatrix.',
    note='Trusted: TLC; preconditions as read from the code and the solver\'s call sites (DESIGN Appendix C). Generated, not exhaustive, '
         'beyond 3x3.',
    technique='TLC exhaustive small model + TLC-simulated operation histories replayed on both matrix back-ends (spec->impl)',
    design='4/C16'),
}

NOT_YET = 'check not built yet in this round (work in progress; see DESIGN.md section 8 for the order of work)'


def main():
    checks = []
    for pid in ALL:
        if pid not in CLAIMED:
            continue
        c = CLAIMED[pid]
        checks.append({
            'property_id': pid,
            'quick_cmd': './check %s --tier quick' % pid,
            'thorough_cmd': './check %s --tier thorough' % pid,
            'evidence_file': '/verif/evidence/%s.json' % pid,
            'replay_cmd_template': './check %s --replay {path}' % pid,
            'engine': 'tla-trace',
            'level_claimed': {'category': c['category'], 'text': c['text'], 'design_ref': 'DESIGN.md ' + c['design']},
            'level_note': c['note'],
            'technique': c['technique'],
        })
    na = [{'property_id': p, 'reason': NA.get(p, NOT_YET)} for p in ALL if p not in CLAIMED]
    man = {
        'version': 1,
        'setup_cmd': 'cd /verif/harness && cargo build --offline --release 2>&1 | tail -3 && cargo build --offline --profile checked 2>&1 | tail -3 && cd /verif/harness-nostd && cargo build --offline --release 2>&1 | tail -3',
        'hooks': {
            'guard': '--cfg raptorq_verif',
            'enable': 'harness/.cargo/config.toml passes rustflags --cfg raptorq_verif; the harness depends on /repo by path '
                      'with feature "benchmarking"',
            'baseline_off_cmd': 'cd /repo && cargo test --workspace --no-fail-fast --offline',
            'source_commits': HOOK_COMMITS,
            'add_only': True,
        },
        'engines': [{
            'name': 'tla-trace', 'path': '/verif/spec',
            'serves_properties': sorted(CLAIMED),
            'kind_free_text': 'explicit TLA+ specification (spec/*.tla) model-checked with TLC; Rust conformance driver '
                              '(harness/) emits ndjson traces validated by TLC trace specs, and replays TLC-generated '
                              'behaviours on the real objects',
        }],
        'checks': checks,
        'not_applicable': na,
        'notes': 'All checks: ./check <id> --tier quick|thorough; exit 0/1/2 (2 = tool error). Known findings: known_findings.txt.',
    }
    with open(os.path.join(ROOT, 'MANIFEST.json'), 'w') as f:
        json.dump(man, f, indent=1)
        f.write('\n')


NA = {}
assert not [p for p in ALL if p not in CLAIMED], 'all properties are claimed'
HOOK_COMMITS = ['7b4caa9', '4fb854c', '324160c', '780b1b4', 'dc24c31', '492f3d7', 'f83de05', '16dc978', '5b78809', '9b16399', '627ad9d']
FIX_COMMITS = ['e1f7f98', '497f892', 'c3da831', 'ae71c22']

if __name__ == '__main__':
    main()
