#!/usr/bin/env python3
"""Demonstration that the trace specifications are bound to the recorded fields (not vacuous): for every trace
spec a small fresh trace is recorded from the real code, accepted, then corrupted in ONE field / one event (or one
hook's events are removed) and must be rejected at that event.   usage: tools/selftest.py   (exit 0 = all as expected)"""
import json, os, sys, copy
sys.path.insert(0, os.path.join(os.path.dirname(os.path.dirname(os.path.abspath(__file__))), 'lib'))
import vlib

exe = vlib.build_harness('release')
results = []


def record(name, args):
    t = vlib.workfile('selftest_%s.ndjson' % name)
    rc, out = vlib.run_drv(exe, args + ['--out', t, '--seed', 5])
    assert rc == 0, out
    return t


def run(module, trace, env=None):
    e = dict(env or {})
    e['TRACE'] = trace
    return vlib.tlc(module, env=e, deque=True, timeout=1800)


def first(evs, pred):
    for i, e in enumerate(evs):
        if pred(e):
            return i
    raise KeyError('no such event')


def case(label, module, trace, mutate, env=None):
    evs = vlib.read_ndjson(trace)
    base = run(module, trace, env)
    evs2 = copy.deepcopy(evs)
    where = mutate(evs2)
    bad = trace + '.bad'
    vlib.write_ndjson(bad, evs2)
    r = run(module, bad, env)
    ok = base.ok and (r.rejected is not None) and not r.ok
    at_right_place = (where is None) or (r.rejected == where + 1)
    results.append((label, base.ok, r.rejected, where + 1 if where is not None else None, ok and at_right_place))
    print('%-62s baseline=%s corrupted: rejected at event %s (corrupted event %s) -> %s' % (
        label, 'accepted' if base.ok else 'NOT ACCEPTED', r.rejected, where + 1 if where is not None else '-',
        'OK' if ok and at_right_place else 'UNEXPECTED'), flush=True)


def setf(evs, pred, fn):
    i = first(evs, pred)
    fn(evs[i])
    return i


# ---- C10
t = record('gf', ['gf256'])
case('Trace_GF256: one product cell', 'Trace_GF256', t, lambda ev: setf(ev, lambda e: e.get('a') == 77, lambda e: e['mul'].__setitem__(9, e['mul'][9] ^ 1)))
case('Trace_GF256: one high-nibble table cell', 'Trace_GF256', t, lambda ev: setf(ev, lambda e: e.get('a') == 200, lambda e: e['hi'].__setitem__(19, e['hi'][19] ^ 4)))
# ---- C04 / C06
t = record('enc', ['enc', '--jobs', '10:1:new:full;26:1:sd:cert;26:1:dp:cert'])
case('Trace_Enc(full): one repair payload byte', 'Trace_Enc', t, lambda ev: setf(ev, lambda e: e.get('mode') == 'full', lambda e: e['rep'][3][2].__setitem__(0, e['rep'][3][2][0] ^ 1)))
case('Trace_Enc(cert): one intermediate symbol', 'Trace_Enc', t, lambda ev: setf(ev, lambda e: e.get('route') == 'sd', lambda e: e['c'][5].__setitem__(0, e['c'][5][0] ^ 2)))
case('Trace_Enc: routes disagree', 'Trace_Enc', t, lambda ev: setf(ev, lambda e: e.get('route') == 'dp', lambda e: (e['c'].__setitem__(0, [e['c'][0][0] ^ 1]))))
# ---- C19 / C14 / C13
t = record('acc', ['objlog', '--what', 'accept', '--n', 200])
case('Trace_Obj(accept): verdict flipped', 'Trace_Obj', t, lambda ev: setf(ev, lambda e: e.get('ev') == 'accept' and e['accepted'], lambda e: e.__setitem__('accepted', False)))
t = record('der', ['objlog', '--what', 'derive', '--n', 200])
case('Trace_Obj(derive): Z off by one', 'Trace_Obj', t, lambda ev: setf(ev, lambda e: e.get('ev') == 'derive' and e.get('res') == 'ok' and e['ws'] == [0, 2560, 0, 0, 0, 0] and e['f'][3:] == [0, 0, 0] and e['oti']['z'] < 200, lambda e: e['oti'].__setitem__('z', e['oti']['z'] + 1)))
t = record('wire', ['objlog', '--what', 'wire', '--n', 60])
case('Trace_Obj(wire): one serialised byte', 'Trace_Obj', t, lambda ev: setf(ev, lambda e: e.get('what') == 'oti', lambda e: e['ser'].__setitem__(7, e['ser'][7] ^ 1)))
# ---- C15
t = record('tup', ['paramlog', '--what', 'tuples', '--per', 2, '--count', 3])
case('Trace_Params: one tuple component', 'Trace_Params', t, lambda ev: setf(ev, lambda e: e.get('ev') == 'tuple' and e['x'] > 5, lambda e: e['t'].__setitem__(2, e['t'][2] + 1)))
# ---- C01 / C02 / C08
t = record('blk', ['codec-block', '--blocks', '10:1', '--seqs', 4])
case('Trace_Codec(block): Some reported as None', 'Trace_Codec', t, lambda ev: setf(ev, lambda e: e.get('res') == 'some', lambda e: (e.__setitem__('res', 'none'), e.pop('out'))), {'RANKMAX': 60})
case('Trace_Codec(block): one output byte', 'Trace_Codec', t, lambda ev: setf(ev, lambda e: e.get('res') == 'some', lambda e: e['out'].__setitem__(2, e['out'][2] ^ 1)), {'RANKMAX': 60})
t = record('obj', ['codec-object', '--configs', '37:3:2:1:1', '--subsets', 1, '--perms', 2])
case('Trace_Codec(object): block-reconstructed flag', 'Trace_Codec', t, lambda ev: setf(ev, lambda e: e.get('ev') == 'deliver' and e.get('blockdone') is False, lambda e: e.__setitem__('blockdone', True)), {'RANKMAX': 60})
# ---- C03
t = record('ovh', ['overhead', '--ks', '10', '--n0', 3000, '--n1', 3000, '--n2', 300])
case('Trace_Overhead: a decodable set listed as failure', 'Trace_Overhead', t, lambda ev: setf(ev, lambda e: e.get('ev') == 'stat' and e['h'] == 0, lambda e: (e['fails'].append(list(range(10))), e.__setitem__('nfails', e['nfails'] + 1))))
# ---- C18
t = record('str', ['stream', '--configs', '20:2:1', '--windows', 3])
case('Trace_Stream: one payload byte of a window', 'Trace_Stream', t, lambda ev: setf(ev, lambda e: e.get('ev') == 'window' and e['n'] >= 2 and e['res'] == 'ok', lambda e: e['packets'][1][2].__setitem__(0, e['packets'][1][2][0] ^ 1)), {'ORACLEMAX': 26})
case('Trace_Stream: two packets of the object list swapped', 'Trace_Stream', t, lambda ev: setf(ev, lambda e: e.get('ev') == 'list' and e['r'] == 1, lambda e: e['packets'].__setitem__(slice(0, 2), [e['packets'][1], e['packets'][0]])), {'ORACLEMAX': 26})
# ---- C09
t = record('lin', ['linear', '--jobs', '10:5'])
case('Trace_Linear: one byte of P(A xor B)', 'Trace_Linear', t, lambda ev: setf(ev, lambda e: e.get('ev') == 'lin', lambda e: e['pab'][11].__setitem__(3, e['pab'][11][3] ^ 1)))
# ---- C07
t = record('scn', ['scenarios', '--profile', 'release'])
def scn_mut(ev):
    seen = set()
    for i, e in enumerate(ev):
        if e.get('ev') == 'scn' and 'packets' in e['out']:
            if e['sid'] in seen:
                e['out']['packets'][0][2][0] ^= 1
                return i
            seen.add(e['sid'])
    raise KeyError
case('Trace_Determinism: one byte under a later configuration', 'Trace_Determinism', t, scn_mut)
# ---- C11 / C12
t = record('ker', ['kernels', '--kind', 'fma', '--level', 'avx2', '--lite'])
case('Trace_Kernels: one result byte in the window', 'Trace_Kernels', t, lambda ev: setf(ev, lambda e: e.get('ev') == 'op' and e['len'] > 20, lambda e: e['win'].__setitem__(12, e['win'][12] ^ 1)))
case('Trace_Kernels: one canary byte in a snapshot (stray write)', 'Trace_Kernels', t, lambda ev: setf(ev, lambda e: e.get('ev') == 'snapshot', lambda e: e['bytes'].__setitem__(3, e['bytes'][3] ^ 1)))
t = record('slab', ['slabobs', '--jobs', '10:4'])
case('Trace_Slab: overlapping borrow', 'Trace_Slab', t, lambda ev: setf(ev, lambda e: e.get('ev') == 'pairs', lambda e: e['pairs'][0].__setitem__(4, e['pairs'][0][3] + 1)))
# ---- C17
t = record('pc', ['plancache-log', '--threads', 4, '--reqs', 12, '--sizes', 80])
case('Trace_PlanCache: FIFO of one critical section', 'Trace_PlanCache', t, lambda ev: setf(ev, lambda e: e.get('kind') == 'new' and len(e['fifo']) > 2, lambda e: e['fifo'].__setitem__(slice(0, 2), [e['fifo'][1], e['fifo'][0]])))
def drop_miss(ev):
    i = first(ev, lambda e: e.get('kind') == 'miss')
    t_, k = ev[i]['t'], ev[i]['key']
    del ev[i]
    return first(ev, lambda e: e.get('ev') == 'cs' and e['t'] == t_ and e['key'] == k and e['kind'] in ('new', 'race'))
case('Trace_PlanCache: one look-up event removed (hook dropped)', 'Trace_PlanCache', t, drop_miss)
# ---- solver
t = record('plan', ['plans', '--jobs', '10', '--decodes', 1])
case('Trace_Plan: one recorded operation removed', 'Trace_Plan', t, lambda ev: setf(ev, lambda e: e.get('ev') == 'plan', lambda e: e['ops'].pop(len(e['ops']) // 2)))
case('Trace_Plan: one scalar changed', 'Trace_Plan', t, lambda ev: setf(ev, lambda e: e.get('ev') == 'plan', lambda e: [o for o in e['ops'] if o[0] == 3][0].__setitem__(3, 7)))
t = record('solv', ['solver', '--jobs', '10', '--decodes', 1])
case('Trace_Solver: counter i of one first-phase observation', 'Trace_Solver', t, lambda ev: setf(ev, lambda e: e.get('ev') == 'solve', lambda e: e['marks'][4].__setitem__('i', e['marks'][4]['i'] + 1)))
case('Trace_Solver: two entries of the column permutation swapped', 'Trace_Solver', t, lambda ev: setf(ev, lambda e: e.get('ev') == 'solve', lambda e: e['marks'][6]['c'].__setitem__(slice(0, 2), [e['marks'][6]['c'][1], e['marks'][6]['c'][0]])))
case('Trace_Solver: u one too large in one observation (Figure 6 still holds)', 'Trace_Solver', t, lambda ev: setf(ev, lambda e: e.get('ev') == 'solve', lambda e: e['marks'][5].__setitem__('u', e['marks'][5]['u'] + 1)))

bad = [r for r in results if not r[4]]
print('\n%d cases, %d as expected' % (len(results), len(results) - len(bad)))
json.dump([{'case': r[0], 'baseline_accepted': r[1], 'rejected_at': r[2], 'corrupted_event': r[3], 'as_expected': r[4]} for r in results],
          open(vlib.workfile('selftest_results.json'), 'w'), indent=1)
sys.exit(1 if bad else 0)
