#!/usr/bin/env python3
"""One-off generator of spec/Rfc6330Tables.tla from the pinned tree (RFC text is not available offline).
The output is frozen in /verif; checks never regenerate it, so a later change to /repo's tables is a
*difference from the spec*, which is what C04/C15 detect."""
import re, sys
repo = sys.argv[1] if len(sys.argv) > 1 else '/repo'
src = open(repo + '/src/rng.rs').read()
tabs = {}
for name in ['V0', 'V1', 'V2', 'V3']:
    m = re.search(r'const %s: \[u32; 256\] = \[(.*?)\];' % name, src, re.S)
    vals = [int(x) for x in re.findall(r'\d+', m.group(1))]
    assert len(vals) == 256
    tabs[name] = vals
sc = open(repo + '/src/systematic_constants.rs').read()
m = re.search(r'SYSTEMATIC_INDICES_AND_PARAMETERS: \[\(u32, u32, u32, u32, u32\); 477\] = \[(.*?)\];', sc, re.S)
rows = re.findall(r'\((\d+), (\d+), (\d+), (\d+), (\d+)\)', m.group(1))
assert len(rows) == 477
out = []
out.append('---------------------------- MODULE Rfc6330Tables ----------------------------')
out.append('(* RFC 6330 section 5.5 (V0..V3) and section 5.6 Table 2 (K\', J(K\'), S(K\'), H(K\'), W(K\')).')
out.append('   Transcribed once from the pinned baseline tree and frozen here (trusted base, see DESIGN.md 3).')
out.append('   32-bit entries are stored as <<hi16, lo16>> because TLC integers are 32-bit signed. *)')
for n, v in tabs.items():
    out.append('%s == <<%s>>' % (n, ', '.join('<<%d,%d>>' % (x >> 16, x & 0xffff) for x in v)))
out.append('Table2 == <<%s>>' % ', '.join('<<%s>>' % ','.join(r) for r in rows))
out.append('=============================================================================')
open('spec/Rfc6330Tables.tla', 'w').write('\n'.join(out) + '\n')
