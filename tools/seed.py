#!/usr/bin/env python3
"""Seeded-change bookkeeping.
  seed.py verify <ID> [name]  - confirm in the scratch worktree /tmp/wt_<ID>: suite passes with the patch, demo fails with it
                                and passes without it; copy patch/demo into /verif/seeded/<name>/ and write meta.json
  seed.py run <name> <check>... - apply seeded/<name>/patch.diff to /repo, run the given checks (quick), undo the patch"""
import json, os, subprocess, sys, time, shutil

ROOT = os.path.dirname(os.path.dirname(os.path.abspath(__file__)))


def sh(cmd, cwd=None, timeout=3600):
    r = subprocess.run(cmd, shell=True, cwd=cwd, stdout=subprocess.PIPE, stderr=subprocess.STDOUT, text=True, timeout=timeout)
    return r.returncode, r.stdout


def verify(pid, name=None):
    name = name or pid
    wt = '/tmp/wt_%s' % pid
    out = os.path.join(ROOT, 'seeded', name)
    os.makedirs(out, exist_ok=True)
    log = []
    demo = 'demo_%s' % pid
    demo_path = os.path.join(wt, 'tests', demo + '.rs')
    if not os.path.exists(demo_path):
        shutil.copy(os.path.join(wt, 'out', 'demo.rs'), demo_path)
    readme = open(os.path.join(wt, 'out', 'README.md')).read()
    release = '--release' if ('--release --test' in readme or '--release --features' in readme) else ''
    if '--features benchmarking' in readme or 'feature = "benchmarking"' in open(demo_path).read():
        release += ' --features benchmarking'
    skip_suite = os.environ.get('SEED_SKIP_SUITE') == '1'
    # state: patch applied?
    rc, o = sh('git diff --stat -- src', cwd=wt)
    if not o.strip():
        rc, o = sh('git apply out/patch.diff', cwd=wt)
        assert rc == 0, o
    # 1. suite with patch (demo moved aside)
    if skip_suite and os.path.exists(os.path.join(out, 'meta.json')):
        suite_ok = json.load(open(os.path.join(out, 'meta.json')))['suite_passes_with_patch']
        log.append('suite with patch: (result kept from the previous verification)')
    else:
        os.rename(demo_path, '/tmp/%s.rs.aside' % demo)
        rc, o = sh('cargo test --offline 2>&1 | grep -E "^test result|FAILED|failed" | head -20', cwd=wt)
        log.append('suite with patch:\n' + o)
        suite_ok = bool(__import__('re').search(r'test result: ok\. (6\d) passed', o)) and 'FAILED' not in o
        os.rename('/tmp/%s.rs.aside' % demo, demo_path)
    # 2. demo with patch
    rc, o = sh('cargo test --offline %s --test %s 2>&1 | grep -E "^test result|^test .* FAILED" | head -20' % (release, demo), cwd=wt)
    log.append('demo with patch:\n' + o)
    demo_fails = 'test result: FAILED' in o
    # 3. demo without patch
    rc, o2 = sh('git apply -R out/patch.diff', cwd=wt)
    assert rc == 0, o2
    rc, o = sh('cargo test --offline %s --test %s 2>&1 | grep -E "^test result|^test .* FAILED" | head -20' % (release, demo), cwd=wt)
    log.append('demo without patch:\n' + o)
    import re
    mm = re.search(r'test result: ok\. (\d+) passed', o)
    demo_passes = bool(mm) and int(mm.group(1)) >= 1 and 'FAILED' not in o
    sh('git apply out/patch.diff', cwd=wt)
    for f in ('patch.diff', 'demo.rs', 'README.md'):
        shutil.copy(os.path.join(wt, 'out', f), os.path.join(out, f))
    meta = {'property': pid, 'name': name, 'suite_passes_with_patch': suite_ok, 'demo_fails_with_patch': demo_fails,
            'demo_passes_without_patch': demo_passes, 'verified_at': time.strftime('%Y-%m-%d %H:%M:%S'),
            'verified_how': 'tools/seed.py verify in scratch worktree %s (cargo test --offline; cargo test --test %s with and without the patch)' % (wt, demo),
            'needs_to_manifest': '', 'detected_by': {}}
    mp = os.path.join(out, 'meta.json')
    if os.path.exists(mp):
        old = json.load(open(mp))
        meta['needs_to_manifest'] = old.get('needs_to_manifest', '')
        meta['detected_by'] = old.get('detected_by', {})
    json.dump(meta, open(mp, 'w'), indent=1)
    open(os.path.join(out, 'verify.log'), 'w').write('\n'.join(log))
    print(json.dumps({k: meta[k] for k in ('suite_passes_with_patch', 'demo_fails_with_patch', 'demo_passes_without_patch')}))
    print('\n'.join(log))


def run(name, checks, tier='quick'):
    out = os.path.join(ROOT, 'seeded', name)
    rc, o = sh('git -C /repo status --porcelain --untracked-files=no')
    assert not o.strip(), '/repo is dirty: ' + o
    rc, o = sh('git -C /repo apply %s' % os.path.join(out, 'patch.diff'))
    assert rc == 0, o
    res = {}
    # evidence files describe the unchanged tree: keep them out of the way of runs against a seeded change
    evid = os.path.join(ROOT, 'evidence')
    keep = os.path.join(ROOT, 'work', 'evidence_keep')
    shutil.rmtree(keep, ignore_errors=True)
    os.makedirs(os.path.join(ROOT, 'work'), exist_ok=True)
    shutil.copytree(evid, keep)
    try:
        for c in checks:
            t0 = time.time()
            rc, o = sh('./check %s --tier %s' % (c, tier), cwd=ROOT, timeout=7200)
            viol = [l for l in o.splitlines() if l.startswith('VIOLATION')]
            first = ''
            lines = o.splitlines()
            for i, l in enumerate(lines):
                if l.startswith('VIOLATION') and i + 1 < len(lines):
                    first = lines[i + 1].strip()[:400]
                    break
            devs = [l for l in o.splitlines() if l.startswith('MODEL-DEVIATION')]
            res[c] = {'exit': rc, 'violations': len(viol), 'first': first, 'wall_s': round(time.time() - t0)}
            if devs:
                res[c]['model_deviations'] = len(devs)
                res[c]['first_deviation'] = devs[0][:300]
            if rc == 2:
                res[c]['tool_error'] = ' '.join(l for l in o.splitlines() if 'TOOL-ERROR' in l)[:300]
            print(c, json.dumps(res[c]))
    finally:
        shutil.rmtree(evid, ignore_errors=True)
        shutil.copytree(keep, evid)
        sh('git -C /repo checkout -- .')
        rc, o = sh('git -C /repo status --porcelain --untracked-files=no')
        assert not o.strip()
        # the harness binaries were built against the patched tree: rebuild them, so that a driver started by hand afterwards
        # does not silently carry the seeded change
        sh('cargo build --offline --release', cwd=os.path.join(ROOT, 'harness'))
    mp = os.path.join(out, 'meta.json')
    meta = json.load(open(mp))
    meta.setdefault('detected_by', {}).update({'%s/%s' % (c, tier): r for c, r in res.items()})
    json.dump(meta, open(mp, 'w'), indent=1)


if __name__ == '__main__':
    if sys.argv[1] == 'verify':
        verify(*sys.argv[2:])
    elif sys.argv[1] == 'run':
        tier = 'quick'
        args = sys.argv[3:]
        if args and args[0] in ('--thorough',):
            tier = 'thorough'
            args = args[1:]
        run(sys.argv[2], args, tier)
