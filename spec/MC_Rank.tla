---------------------------- MODULE MC_Rank ----------------------------
(* The systematic index J(K') makes the encoding constraint matrix invertible (RFC 6330 5.3.3.4.2):
   rank(A(K', ISIs 0..K'-1)) = L over GF(256), computed by TLC from the RFC definitions, one state per K'. *)
EXTENDS Rfc6330, TLC, IOUtils, Integers
MaxKp == atoi(IOEnv.RANK_MAXK)
Rows == {ti \in 1..NumRows : Table2[ti][1] <= MaxKp}
VARIABLE v_row
Init == v_row = 0
Next == v_row = 0 /\ v_row' \in Rows
Spec == Init /\ [][Next]_v_row
Invertible == v_row > 0 =>
   LET pr == ParamTab[v_row] IN
   RankOfMatrix(AMatrix(pr, [k \in 1..pr.Kp |-> k - 1]), pr.L, pr.L) = pr.L
\* the regrouped LDPC certificate equals the literal RFC loops, on pseudo-random and on solution vectors
LdpcFormsAgree == v_row > 0 =>
   LET pr == ParamTab[v_row] IN
   \A sd \in 1..4 : LET C == [i \in 1..pr.L |-> (i * (37 + 2 * sd) + (i \div 7) * sd + sd) % 256] IN
                     LdpcHolds(pr, C) = LdpcHoldsRef(pr, C)
LdpcSolutionOk == v_row > 0 =>
   LET pr == ParamTab[v_row]  C == SolveC(pr.Kp, [i \in 1..pr.Kp |-> (i * 11 + 3) % 256]) IN
   LdpcHolds(pr, C) /\ LdpcHoldsRef(pr, C) /\ HdpcHolds(pr, C)
ParamsSane == v_row > 0 => LET pr == ParamTab[v_row] IN pr.P >= pr.H /\ pr.B >= 1 /\ pr.U >= 0
=============================================================================
