SPECIFICATION Spec
CONSTANT TripleSet <- Byte
INVARIANTS Closed Commutative Identity Inverse NoZeroDivisors Associative Distributive Generator LogExpForm NibbleSplit
CHECK_DEADLOCK FALSE
