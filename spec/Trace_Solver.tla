---------------------------- MODULE Trace_Solver ----------------------------
(* impl -> spec: a run of the real five-phase solver, observed through its hook at the end of every first-phase
   iteration and at the end of every phase (counters i and u, the row and column permutations d and c, and how many
   symbol operations had been recorded).  The specification rebuilds the true coefficient matrix at each observation
   point by applying the recorded operations (Elim) to the RFC constraint matrix of the received set, views it through
   the permutations (logical B[r][j] = M[d[r]][c[j]]) and requires the structure Solver.tla prescribes for that point:
   Figure 6 during the first phase, identity U_lower and zero surplus rows after the second, lower-triangular X after the
   third, zero U_upper after the fourth, the identity after the fifth. *)
EXTENDS Elim, Solver, Rfc6330, TLC, Json, IOUtils, FiniteSets
Rec == ndJsonDeserialize(IOEnv.TRACE)
VARIABLES v_pos, v_mark, v_applied
vars == <<v_pos, v_mark, v_applied, v_mat>>
Chk(c, m) == IF c THEN TRUE ELSE PrintT(<<"MISMATCH", m>>) /\ FALSE

SystemOf(e) ==
  LET pr == Params(e.k)
      pre == PreRows(pr)
      rows == IF e.hdpc THEN pre ELSE SubSeq(pre, 1, pr.S)
  IN TLCEval(rows \o [i \in 1..Len(e.isis) |-> LtRow(pr, e.isis[i])])
ApplyF(M, op) ==
  LET d == op[2] + 1  s == op[3] + 1 IN
  [M EXCEPT ![d] = TLCEval([c \in DOMAIN M[d] |->
                      CASE op[1] = 1 -> M[d][c] ^^ M[s][c]
                        [] op[1] = 2 -> Mul(op[4], M[d][c])
                        [] op[1] = 3 -> M[d][c] ^^ Mul(op[4], M[s][c])])]
\* the logical matrix at a mark: row r is physical row d[r], column j is intermediate symbol c[j]
Logical(M, mk) == [r \in 0..(Len(mk.d) - 1) |-> [j \in 0..(Len(mk.c) - 1) |-> M[mk.d[r + 1] + 1][mk.c[j + 1] + 1]]]

MarkOk(e, mk, M) ==
  LET B == Logical(M, mk)  nr == Len(mk.d)  nc == Len(mk.c)
      ctx == <<"K", e.k, "route", e.route, "phase", mk.ph, "i", mk.i, "u", mk.u>>
  IN CASE mk.ph = 0 -> Chk(mk.i = 0 /\ mk.n = 0 /\ mk.u = Params(e.k).P, <<"unexpected initial state", ctx>>)
       [] mk.ph = 1 -> Chk(Fig6(B, nr, nc, mk.i, mk.u), <<"Figure 6 violated after a first-phase step", ctx>>)
       [] mk.ph = 11 -> Chk(Fig6(B, nr, nc, mk.i, mk.u) /\ mk.i + mk.u = nc, <<"Figure 6 violated at the end of the first phase", ctx>>)
       [] mk.ph = 2 -> Chk(AfterPhase2(B, nr, nc, mk.i), <<"U_lower is not the identity / surplus rows not zero after the second phase", ctx>>)
       [] mk.ph = 3 -> Chk(AfterPhase3(B, nr, nc, mk.i), <<"upper-left block not unit lower triangular after the third phase", ctx>>)
       [] mk.ph = 4 -> Chk(AfterPhase4(B, nr, nc, mk.i), <<"U_upper not zero after the fourth phase", ctx>>)
       [] mk.ph = 5 -> Chk(AfterPhase5(B, nr, nc), <<"not the identity after the fifth phase", ctx>>)

\* The observed first-phase iteration from mark `pv` to mark `mk` is an instance of the specification's liberal Phase1Step:
\* the row now at position i was a row at or below i with r >= 1 nonzeros in V, the column now at position i was one of
\* them, exactly the other r-1 were moved to the front of U, and u grew by r-1.  M is the matrix at `pv`.
PosOf(sq, x) == CHOOSE j \in 1..Len(sq) : sq[j] = x
IsPhase1Step(e, pv, mk, M) ==
  LET nc == Len(mk.c)
      Bp == Logical(M, pv)
      prow == mk.d[mk.i]                                  \* physical row chosen (now logical row i-1, 1-based index i)
      r0 == PosOf(pv.d, prow) - 1                         \* where it was (0-based logical row)
      vcols == pv.i..(nc - pv.u - 1)
      ones == {j \in vcols : Bp[r0][j] # 0}
      r == Cardinality(ones)
      pivcol == mk.c[mk.i]                                \* physical column now at position i-1
      moved == {mk.c[j + 1] : j \in (nc - mk.u)..(nc - pv.u - 1)}     \* physical columns that joined U
      ctx == <<"K", e.k, "route", e.route, "i", pv.i, "u", pv.u>>
  IN /\ Chk(mk.i = pv.i + 1, <<"first-phase step did not advance i by one", ctx>>)
     /\ Chk(r0 >= pv.i /\ r >= 1, <<"chosen row has no nonzero in V or lies above i", ctx, "row", r0, "r", r>>)
     /\ Chk(mk.u = pv.u + r - 1, <<"u did not grow by r-1", ctx, "r", r, "new u", mk.u>>)
     /\ Chk(pivcol \in {pv.c[j + 1] : j \in ones}, <<"pivot column is not one of the chosen row's ones in V", ctx>>)
     /\ Chk(moved = {pv.c[j + 1] : j \in ones} \ {pivcol}, <<"columns moved into U are not the other ones of the chosen row", ctx>>)

Init == v_pos = 1 /\ v_mark = 0 /\ v_applied = 0 /\ v_mat = <<>>
Load(e) == /\ v_mark = 0
           /\ Chk(e.res = "ok", <<"solver failed", e.k, e.route, e.res>>) = TRUE
           /\ v_mat' = SystemOf(e) /\ v_mark' = 1 /\ v_applied' = 0 /\ UNCHANGED v_pos
\* one step per observation point: apply the operations recorded since the previous point, then check the structure
MarkStep(e) ==
  /\ v_mark >= 1 /\ v_mark <= Len(e.marks)
  /\ LET mk == e.marks[v_mark] IN
     /\ Chk(mk.n >= v_applied /\ mk.n <= Len(e.ops), <<"operation counter went backwards", e.k, e.route, mk.n>>) = TRUE
     /\ (mk.ph = 1 => IsPhase1Step(e, e.marks[v_mark - 1], mk, v_mat)) = TRUE
     /\ v_mat' = FoldLeft(ApplyF, v_mat, SubSeq(e.ops, v_applied + 1, mk.n))
     /\ MarkOk(e, mk, v_mat') = TRUE
     /\ v_applied' = mk.n
  /\ v_mark' = v_mark + 1 /\ UNCHANGED v_pos
\* the last observation is the end of the fifth phase; the final reorder mapping must be the one the permutations give
Finish(e) ==
  /\ v_mark = Len(e.marks) + 1
  /\ Chk(e.marks[Len(e.marks)].ph = 5 /\ v_applied = Len(e.ops), <<"run did not end with the fifth phase", e.k, e.route>>) = TRUE
  /\ Chk(Solved(e.order, Params(e.k).L), <<"final reorder mapping does not solve the system", e.k, e.route>>) = TRUE
  /\ v_mark' = 0 /\ v_applied' = 0 /\ v_mat' = <<>> /\ v_pos' = v_pos + 1
Step ==
  /\ v_pos <= Len(Rec)
  /\ LET e == Rec[v_pos] IN
     \/ e.ev \in {"meta", "end"} /\ v_pos' = v_pos + 1 /\ UNCHANGED <<v_mark, v_applied, v_mat>>
     \/ e.ev = "solve" /\ Load(e)
     \/ e.ev = "solve" /\ MarkStep(e)
     \/ e.ev = "solve" /\ Finish(e)
Spec == Init /\ [][Step]_vars
StepsOf(e) == IF e.ev = "solve" THEN Len(e.marks) + 2 ELSE 1
RECURSIVE StepsUpTo(_)
StepsUpTo(n) == IF n = 0 THEN 0 ELSE StepsUpTo(n - 1) + StepsOf(Rec[n])
RECURSIVE EventAt(_, _)
EventAt(depth, n) == IF n > Len(Rec) \/ StepsUpTo(n) >= depth THEN n ELSE EventAt(depth, n + 1)
Accepted == LET d == TLCGet("stats").diameter IN
            IF d - 1 = StepsUpTo(Len(Rec)) /\ Rec[Len(Rec)].ev = "end" THEN TRUE
            ELSE PrintT(<<"REJECTED", EventAt(d, 1)>>) /\ FALSE
=============================================================================
