---------------------------- MODULE Trace_Codec ----------------------------
(* impl -> spec for C01 / C02 / C08: every call of the real decoders is a step of Codec.  Events:
     cfg     new configuration (F,T,Z,N,Al) and object bytes; all decoders are discarded
     new     create decoder `dec` (kind "object": Decoder, kind "block": SourceBlockDecoder for block sbn)
     deliver api "decode" (Decoder::decode), "add" (add_new_packet), "block" (SourceBlockDecoder::decode, a batch)
     get     Decoder::get_result
     clone   dec -> to
   The logged result of each call must be the one the specification determines from the *set* of packets the
   decoder has received: None, or Some with exactly the original bytes.  Decodability is decided by TLC with
   Rfc6330!FullRank for K' <= RANKMAX; above that it is learned (first observation per (block size, set) is
   recorded and every later observation of the same set must agree, superset/subset observations must be
   monotone), so soundness, completeness and order-independence are still checked exactly. *)
EXTENDS Rfc6330, Rfc6330ObjLite, TLC, Json, IOUtils
Rec == ndJsonDeserialize(IOEnv.TRACE)
RankMax == atoi(IOEnv.RANKMAX)

VARIABLES v_pos, v_cfgpos, v_ks, v_recv, v_memo, v_kind, v_learn
vars == <<v_pos, v_cfgpos, v_ks, v_recv, v_memo, v_kind, v_learn>>
Chk(c, m) == IF c THEN TRUE ELSE PrintT(<<"MISMATCH", m>>) /\ FALSE

\* pre-code rows per K' occurring in the trace (constant, evaluated once)
CfgEvents == {n \in 1..Len(Rec) : Rec[n].ev = "cfg"}
KsOfCfg(e) == LET Kt == CeilDivL(e.f, e.t) IN [b \in 1..e.z |-> BlockSymbolsL(Kt, e.z, b - 1)]
PreTab == TLCEval([ti \in {t2 \in 1..NumRows : \E n \in CfgEvents : \E b \in 1..Rec[n].z : TabIdx(KsOfCfg(Rec[n])[b]) = t2 /\ Table2[t2][1] <= RankMax}
            |-> PreRows(ParamTab[ti])])

IsisOf(K, pr, S) ==
  LET src == {e \in S : e < K}
      rep == {e \in S : e >= K}
      all == src \cup (K..(pr.Kp - 1)) \cup {e + pr.Kp - K : e \in rep}
  IN SetToSeq(all)
\* the exact oracle (only called for K' <= RankMax)
RankOracle(K, S) == LET ti == TabIdx(K)  pr == ParamTab[ti] IN FullRank(PreTab[ti], pr, IsisOf(K, pr, S))
Exact(K) == Table2[TabIdx(K)][1] <= RankMax

\* --- Codec actions with the oracle plugged in; for large K' the oracle value is the logged one (learned)
C == INSTANCE Codec WITH DecOracle <- RankOracle

AllSrc(K, S) == \A i \in 0..(K - 1) : i \in S
\* learned-mode consistency: same set -> same outcome; decodable subsets / undecodable supersets constrain
LearnOk(K, S, outcome) ==
  \A l \in v_learn : l[1] = K =>
     /\ (l[2] = S => l[3] = outcome)
     /\ (l[2] \subseteq S /\ l[3] => outcome)
     /\ (S \subseteq l[2] /\ outcome => l[3])

\* for objects above 2 KiB only the length is known to the spec (a sequence of that length stands in for the bytes)
ObjBytes == IF Rec[v_cfgpos].f <= 2048 THEN Rec[v_cfgpos].data ELSE [i \in 1..Rec[v_cfgpos].f |-> 0]
BlockBytes(b) ==      \* the bytes SourceBlockDecoder returns: the block's slice of the object, zero padded to K*T
  LET e == Rec[v_cfgpos]  Kt == CeilDivL(e.f, e.t)  K == v_ks[b + 1]
      start == BlockStartL(Kt, e.z, b) * e.t
  IN [i \in 1..(K * e.t) |-> IF e.f <= 2048 /\ start + i <= e.f THEN e.data[start + i] ELSE 0]

\* outputs above 2 KiB are logged as (equality with the original computed by the harness, length)
OutOk(e, want, ctx) ==
  /\ Chk(e.res = "some", <<"decoder answered None although the received set determines the object/block", ctx>>)
  /\ e.res = "some" =>
       IF "out" \in DOMAIN e
       THEN Chk(e.out = want, <<"decoder returned bytes that differ from the original", ctx, "len", Len(e.out), "want", Len(want)>>)
       ELSE Chk(e.out_eq /\ e.out_len = Len(want), <<"decoder returned bytes that differ from the original (large object)", ctx, e.out_len>>)
NoneOk(e, ctx) == Chk(e.res = "none", <<"decoder answered although the received set does not determine the object/block", ctx, e.res>>)

Init == /\ v_pos = 1 /\ v_cfgpos = 0 /\ v_ks = <<>> /\ v_recv = <<>> /\ v_memo = <<>> /\ v_kind = <<>> /\ v_learn = {}

CfgStep(e) ==
  /\ v_cfgpos' = v_pos /\ v_ks' = KsOfCfg(e)
  /\ v_recv' = <<>> /\ v_memo' = <<>> /\ v_kind' = <<>>
  /\ Chk(Len(e.data) = e.f \/ e.f > 2048, <<"cfg: data length">>) = TRUE
  /\ UNCHANGED v_learn
NewStep(e) ==
  /\ v_recv' = (e.dec :> [b \in C!Blocks |-> {}]) @@ v_recv
  /\ v_memo' = (e.dec :> [b \in C!Blocks |-> FALSE]) @@ v_memo
  /\ v_kind' = (e.dec :> e.kind) @@ v_kind
  /\ UNCHANGED <<v_cfgpos, v_ks, v_learn>>
CloneStep(e) ==
  /\ v_recv' = (e.to :> v_recv[e.dec]) @@ v_recv
  /\ v_memo' = (e.to :> v_memo[e.dec]) @@ v_memo
  /\ v_kind' = (e.to :> v_kind[e.dec]) @@ v_kind
  /\ UNCHANGED <<v_cfgpos, v_ks, v_learn>>

\* learned mode (K' > RankMax): the step takes the logged per-block outcome, constrained by everything learned so far
LearnedDeliver(e, d, b, es) ==
  LET K == v_ks[b + 1]
      m0 == v_memo[d][b]
      S == IF m0 /\ e.api # "block" THEN v_recv[d][b] ELSE v_recv[d][b] \cup es
      logged == IF e.api = "block" THEN e.res = "some" ELSE e.blockdone
      m1 == IF m0 \/ AllSrc(K, S) THEN TRUE ELSE IF Cardinality(S) < K THEN FALSE ELSE logged
      fresh == ~m0 /\ Cardinality(S) >= K /\ ~AllSrc(K, S)
  IN /\ v_recv' = [v_recv EXCEPT ![d][b] = S]
     /\ v_memo' = [v_memo EXCEPT ![d][b] = m1]
     /\ (fresh => Chk(LearnOk(K, S, m1), <<"same/related packet sets gave different outcomes", "K", K, "received", S>>)) = TRUE
     /\ v_learn' = IF fresh THEN v_learn \cup {<<K, S, m1>>} ELSE v_learn

DeliverStep(e) ==
  LET d == e.dec  b == e.pk[1][1]
      es == {e.pk[i][2] : i \in 1..Len(e.pk)}
      K == v_ks[b + 1]
      ctx == <<"K", K, "block", b, "received", v_recv'[d][b]>>
  IN
  /\ \A i \in 1..Len(e.pk) : e.pk[i][1] = b
  \* the step itself is Codec's action
  /\ IF Exact(K)
     THEN /\ (IF e.api = "block" THEN C!DeliverBatch(d, b, es) ELSE C!Deliver(d, b, e.pk[1][2]))
          /\ UNCHANGED v_learn
     ELSE LearnedDeliver(e, d, b, es)
  \* ... and the logged result must be the one the successor state determines
  /\ (CASE e.api = "block" -> IF v_memo'[d][b] THEN OutOk(e, BlockBytes(b), ctx) ELSE NoneOk(e, ctx)
        [] e.api = "decode" -> /\ (IF \A bb \in C!Blocks : v_memo'[d][bb] THEN OutOk(e, ObjBytes, ctx) ELSE NoneOk(e, ctx))
                               /\ Chk(e.blockdone = v_memo'[d][b], <<"block reconstructed / not reconstructed against decodability of the received set", ctx, e.blockdone>>)
        [] e.api = "add" -> /\ Chk(e.res = "na", <<"add_new_packet failed", ctx, e.res>>)
                            /\ Chk(e.blockdone = v_memo'[d][b], <<"block reconstructed / not reconstructed against decodability of the received set", ctx, e.blockdone>>)) = TRUE
  /\ UNCHANGED <<v_cfgpos, v_ks, v_kind>>

GetStep(e) ==
  /\ (IF \A bb \in C!Blocks : v_memo[e.dec][bb] THEN OutOk(e, ObjBytes, <<"get_result">>) ELSE NoneOk(e, <<"get_result">>)) = TRUE
  /\ UNCHANGED <<v_cfgpos, v_ks, v_recv, v_memo, v_kind, v_learn>>

Step ==
  /\ v_pos <= Len(Rec)
  /\ LET e == Rec[v_pos] IN
     \/ e.ev \in {"meta", "end"} /\ UNCHANGED <<v_cfgpos, v_ks, v_recv, v_memo, v_kind, v_learn>>
     \/ e.ev = "cfg" /\ CfgStep(e)
     \/ e.ev = "new" /\ NewStep(e)
     \/ e.ev = "clone" /\ CloneStep(e)
     \/ e.ev = "deliver" /\ DeliverStep(e)
     \/ e.ev = "get" /\ GetStep(e)
  /\ v_pos' = v_pos + 1
Spec == Init /\ [][Step]_vars

Accepted == LET d == TLCGet("stats").diameter IN
            IF d - 1 = Len(Rec) /\ Rec[Len(Rec)].ev = "end" THEN TRUE ELSE PrintT(<<"REJECTED", d>>) /\ FALSE
=============================================================================
