---------------------------- MODULE Trace_Kernels ----------------------------
(* impl -> spec for C11 (and the write-frame part of C12): every recorded call of a kernel (one instruction-set
   variant per trace, or the public dispatcher) is a step of Kernels.tla on one arena.  After each call the window
   plus 8 bytes on either side is compared; every 25 calls and at the end the whole arena (incl. the canary margins)
   is compared, so a write outside the window is caught. *)
EXTENDS Kernels, TLC, Json, IOUtils
Rec == ndJsonDeserialize(IOEnv.TRACE)
VARIABLES v_pos, v_ops
vars == <<v_pos, v_ops, v_arena>>
Chk(c, m) == IF c THEN TRUE ELSE PrintT(<<"MISMATCH", m>>) /\ FALSE

WinOk(e) ==
  \A j \in 1..Len(e.win) :
     Chk(e.win[j] = v_arena'[e.winlo + j],
         <<"kernel result differs from the element-wise field operation", "kernel", e.k, "level", e.level, "len", e.len,
           "off", e.off, "scalar", e.c, "index", e.winlo + j - 1 - e.off, "got", e.win[j], "want", v_arena'[e.winlo + j]>>)

OpStep(e) ==
  /\ Chk(e.res = "ok", <<"kernel call failed", e.k, e.level, e.len, e.off, e.res>>) = TRUE
  /\ CASE e.k = "add" -> AddAssign(e.off, e.src)
       [] e.k = "mul" -> MulAssign(e.off, e.len, e.c)
       [] e.k = "fma" -> Fma(e.off, e.src, e.c)
       [] e.k = "fmab" -> FmaBinary(e.off, e.len, e.words, e.c)
  /\ WinOk(e) = TRUE
  /\ v_ops' = v_ops + 1

Init == v_pos = 1 /\ v_ops = 0 /\ v_arena = <<>>
Step ==
  /\ v_pos <= Len(Rec)
  /\ LET e == Rec[v_pos] IN
     \/ e.ev \in {"meta", "end"} /\ UNCHANGED <<v_ops, v_arena>>
     \/ e.ev = "arena" /\ v_arena' = e.bytes /\ UNCHANGED v_ops
     \/ /\ e.ev = "snapshot" /\ UNCHANGED <<v_ops, v_arena>>
        /\ Chk(e.bytes = v_arena, <<"arena differs from the specification outside the last window (stray write)",
                                    {i \in 1..Len(v_arena) : e.bytes[i] # v_arena[i]}>>) = TRUE
     \/ e.ev = "op" /\ OpStep(e)
  /\ v_pos' = v_pos + 1
Spec == Init /\ [][Step]_vars
Accepted == LET d == TLCGet("stats").diameter IN
            IF d - 1 = Len(Rec) /\ Rec[Len(Rec)].ev = "end" THEN TRUE ELSE PrintT(<<"REJECTED", d>>) /\ FALSE
=============================================================================
