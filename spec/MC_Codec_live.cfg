SPECIFICATION FairSpec
CONSTANTS Univ <- UnivQuick  EmitHist = FALSE  HistLen = 0
PROPERTIES EventuallyAnswers CloneFrozen Stable
CHECK_DEADLOCK FALSE
