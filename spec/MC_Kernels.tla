---------------------------- MODULE MC_Kernels ----------------------------
(* Exhaustive small model of Kernels.tla: an arena of 4 cells over the subfield GF(4) of GF(256) (closed under the
   field operations), every window, every source operand, every scalar of the subfield, every packed-bit pattern.
   Checks the algebra the solver relies on and the frame condition. *)
EXTENDS Kernels, TLC, FiniteSets
N == 4
F4 == {x \in Byte : Mul(Mul(x, x), Mul(x, x)) = x}            \* {0, 1, w, w+1}: the elements with x^4 = x
Seqs(S, n) == [1..n -> S]
\* a packed word for <= 4 values: one 8-byte word whose top (64 - pad) bits carry the values
WordOf(bits, n) == LET pad == PadBits(n)
                       val == [k \in 0..63 |-> IF k >= pad /\ k - pad < n THEN bits[k - pad + 1] ELSE 1]   \* padding bits set: garbage
                   IN <<[b \in 1..8 |-> val[8*(b-1)] + 2*val[8*(b-1)+1] + 4*val[8*(b-1)+2] + 8*val[8*(b-1)+3]
                                      + 16*val[8*(b-1)+4] + 32*val[8*(b-1)+5] + 64*val[8*(b-1)+6] + 128*val[8*(b-1)+7]]>>
Init == v_arena \in Seqs(F4, N)
Next == \E off \in 0..N : \E n \in 0..(N - off) :
          \/ \E src \in Seqs(F4, n) : AddAssign(off, src)
          \/ \E c \in F4 : MulAssign(off, n, c)
          \/ \E src \in Seqs(F4, n), c \in F4 : Fma(off, src, c)
          \/ \E bits \in Seqs({0, 1}, n), c \in F4 : n > 0 /\ FmaBinary(off, n, WordOf(bits, n), c)
Spec == Init /\ [][Next]_v_arena
Closed == \A i \in 1..N : v_arena[i] \in F4
ASSUME F4Field == Cardinality(F4) = 4 /\ \A x \in F4, y \in F4 : Mul(x, y) \in F4 /\ (x ^^ y) \in F4
\* fma = add after multiply; the binary form equals fma with the unpacked bits; add is an involution; unpack inverts pack
ASSUME PackUnpack == \A n \in 1..4 : \A bits \in Seqs({0, 1}, n) : Unpack(WordOf(bits, n), n) = bits
Algebra ==
  \A off \in 0..N : \A n \in 0..(N - off) : \A src \in Seqs(F4, n), c \in F4 :
     LET fma == Upd(off, n, LAMBDA i : v_arena[i] ^^ Mul(c, src[i - off]))
         mulsrc == [k \in 1..n |-> Mul(c, src[k])]
         addmul == Upd(off, n, LAMBDA i : v_arena[i] ^^ mulsrc[i - off])
     IN fma = addmul
Frame == [][\E off \in 0..N, n \in 0..N : \A i \in 1..N : ~InWin(i, off, n) => v_arena'[i] = v_arena[i]]_v_arena
=============================================================================
