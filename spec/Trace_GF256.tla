---------------------------- MODULE Trace_GF256 ----------------------------
(* impl -> spec for C10: every cell the implementation's scalar arithmetic and derived tables produce is
   compared with the field defined in GF256.tla.  One event per table row; "end" demands completeness. *)
EXTENDS GF256, Sequences, FiniteSets, Json, IOUtils
Rec == ndJsonDeserialize(IOEnv.TRACE)
VARIABLES v_pos, v_rows, v_tabs
vars == <<v_pos, v_rows, v_tabs>>

Chk(c, m) == IF c THEN TRUE ELSE PrintT(<<"MISMATCH", m>>) /\ FALSE

TabsOk(e) ==
  /\ Len(e.exp) = 510 /\ Len(e.log) = 256 /\ Len(e.alpha) = 256
  /\ \A i \in 0..509 : Chk(e.exp[i+1] = ExpTab[i], <<"exp", i, e.exp[i+1], ExpTab[i]>>)
  /\ \A p \in 1..255 : Chk(e.log[p+1] = LogTab[p], <<"log", p, e.log[p+1], LogTab[p]>>)
  \* unchecked look-ups OCT_EXP[log u + log v] stay below 510 for every entry the table holds
  /\ \A p \in 0..255, q \in 0..255 : e.log[p+1] + e.log[q+1] <= 509
  /\ \A i \in 0..255 : Chk(e.alpha[i+1] = ExpTab[i], <<"alpha", i, e.alpha[i+1], ExpTab[i]>>)
  /\ Chk(e.zero = 0 /\ e.one = 1, <<"zero/one">>)

FmaOk(a, f) ==
  LET spec == f[1] r == f[2] IN
  \A q \in Byte :
    LET acc == IF spec = 256 THEN a ^^ q ELSE spec IN
    Chk(r[q+1] = Add(acc, Mul(a, q)), <<"fma", acc, a, q, r[q+1], Add(acc, Mul(a, q))>>)

RowOk(e) ==
  LET a == e.a IN
  /\ a \in Byte
  /\ Len(e.mul) = 256 /\ Len(e.div) = 255 /\ Len(e.lo) = 32 /\ Len(e.hi) = 32 /\ Len(e.omul) = 256
  /\ \A q \in Byte :
        /\ Chk(e.mul[q+1] = Mul(a, q), <<"mul", a, q, e.mul[q+1], Mul(a, q)>>)
        /\ Chk(e.mulref[q+1] = Mul(a, q), <<"mulref", a, q, e.mulref[q+1], Mul(a, q)>>)
        /\ Chk(e.omul[q+1] = Mul(a, q), <<"OCTET_MUL", a, q, e.omul[q+1], Mul(a, q)>>)
        /\ Chk(e.add[q+1] = Add(a, q), <<"add", a, q, e.add[q+1]>>)
        /\ Chk(e.addref[q+1] = Add(a, q), <<"addref", a, q, e.addref[q+1]>>)
        /\ Chk(e.sub[q+1] = Add(a, q), <<"sub", a, q, e.sub[q+1]>>)
        /\ Chk(e.addassign[q+1] = Add(a, q), <<"addassign", a, q, e.addassign[q+1]>>)
        \* the nibble tables as the vector kernels use them: both 16-byte lanes, lo[x mod 16] + hi[x div 16]
        /\ \A lane \in 0..1 :
             Chk(Add(e.lo[16*lane + (q % 16) + 1], e.hi[16*lane + (q \div 16) + 1]) = Mul(a, q),
                 <<"nibble", a, q, lane>>)
  /\ \A n \in 0..15, lane \in 0..1 :
        /\ Chk(e.lo[16*lane + n + 1] = NibLo(a, n), <<"lo", a, n, lane, e.lo[16*lane + n + 1]>>)
        /\ Chk(e.hi[16*lane + n + 1] = NibHi(a, 16*n), <<"hi", a, n, lane, e.hi[16*lane + n + 1]>>)
  /\ \A q \in 1..255 :
        /\ Chk(e.div[q] = Div(a, q), <<"div", a, q, e.div[q], Div(a, q)>>)
        /\ Chk(e.divref[q] = Div(a, q), <<"divref", a, q, e.divref[q], Div(a, q)>>)
        /\ Chk(Mul(e.div[q], q) = a, <<"div*q", a, q>>)
  /\ \A k \in 1..Len(e.fma) : FmaOk(a, e.fma[k])

Init == v_pos = 1 /\ v_rows = {} /\ v_tabs = FALSE
Step ==
  /\ v_pos <= Len(Rec)
  /\ LET e == Rec[v_pos] IN
     \/ e.ev = "meta" /\ UNCHANGED <<v_rows, v_tabs>>
     \/ e.ev = "tabs" /\ TabsOk(e) = TRUE /\ v_tabs' = TRUE /\ UNCHANGED v_rows
     \/ e.ev = "row" /\ RowOk(e) = TRUE /\ v_rows' = v_rows \cup {e.a} /\ UNCHANGED v_tabs
     \/ e.ev = "end" /\ Chk(v_rows = Byte /\ v_tabs, <<"incomplete dump">>) /\ UNCHANGED <<v_rows, v_tabs>>
  /\ v_pos' = v_pos + 1
Spec == Init /\ [][Step]_vars

Accepted == LET d == TLCGet("stats").diameter IN
            IF d - 1 = Len(Rec) /\ Rec[Len(Rec)].ev = "end" THEN TRUE
            ELSE PrintT(<<"REJECTED", d>>) /\ FALSE
=============================================================================
