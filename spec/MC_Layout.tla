---------------------------- MODULE MC_Layout ----------------------------
(* C05, spec -> impl: TLC enumerates every (F, T, Z, N, Al) in a box and derives, from Partition and the sub-block
   rule of RFC 6330 4.4.1.2 alone, the exact list of source packets (SBN, ESI, T payload bytes) for the object
   Data(0..F-1); the harness compares Encoder::get_encoded_packets(0) with it and decodes the packets back. *)
EXTENDS Rfc6330Obj, TLC, Json, Integers
CONSTANTS MaxT, MaxSymbols, MaxZ, Directed
VARIABLE v_case
vars == <<v_case>>
DirectedQuick == {<<1000, 24, 5, 3, 4>>, <<2047, 64, 3, 5, 8>>, <<999, 40, 7, 3, 8>>, <<500, 21, 4, 4, 3>>}
DirectedThorough == DirectedQuick \cup
   {<<10000, 128, 9, 7, 8>>, <<8191, 96, 11, 5, 4>>, <<4001, 33, 13, 11, 3>>, <<30000, 1024, 3, 5, 8>>,
    <<2500, 4, 255, 2, 1>>, <<20011, 200, 6, 9, 8>>}

\* the property quantifies over Z <= ceil(F/T), N <= T/Al, Al | T: directed shapes must be inside that domain
ASSUME DirectedValid == \A d \in DirectedThorough : d[3] <= (d[1] + d[2] - 1) \div d[2] /\ d[2] % d[5] = 0 /\ d[4] <= d[2] \div d[5]

Data(i) == (i * 37 + (i \div 251) * 7 + 11) % 256
Divisors(n) == {d \in 1..n : n % d = 0}
KtOf(F, T) == CeilDiv(F, T)

\* payload of symbol m of block sbn
SymbolBytes(F, T, Z, N, Al, sbn, m) ==
  LET Kt == KtOf(F, T)
      K == BlockSymbols(Kt, Z, sbn)
      base == BlockStart(Kt, Z, sbn) * T
  IN [q \in 1..T |-> LET off == base + BlockByteOffset(K, T, Al, N, m, q - 1)
                     IN IF off < F THEN Data(off) ELSE 0]
Packets(F, T, Z, N, Al) ==
  LET Kt == KtOf(F, T)
      blk(sbn) == [m \in 1..BlockSymbols(Kt, Z, sbn) |-> <<sbn, m - 1, SymbolBytes(F, T, Z, N, Al, sbn, m - 1)>>]
      RECURSIVE cat(_)
      cat(sbn) == IF sbn = Z THEN <<>> ELSE blk(sbn) \o cat(sbn + 1)
  IN cat(0)

Init == v_case = [kind |-> "root"]
Next == /\ v_case.kind = "root"
        /\ \E T \in 1..MaxT : \E Al \in Divisors(T) : \E N \in 1..(T \div Al) : \E F \in 1..(MaxSymbols * T) :
           \E Z \in 1..(IF KtOf(F, T) < MaxZ THEN KtOf(F, T) ELSE MaxZ) :
             v_case' = [kind |-> "layout", f |-> F, t |-> T, z |-> Z, n |-> N, al |-> Al, packets |-> Packets(F, T, Z, N, Al)]
        \* directed larger shapes: Kt not divisible by Z, T/Al not divisible by N, F not a multiple of T
Next2 == /\ v_case.kind = "root"
         /\ \E d \in Directed :
              v_case' = [kind |-> "layout", f |-> d[1], t |-> d[2], z |-> d[3], n |-> d[4], al |-> d[5],
                         packets |-> Packets(d[1], d[2], d[3], d[4], d[5])]
\* block boundaries of very large objects (Kt*T at and above 2^32 octets): the case gives the boundaries in SYMBOLS - block
\* sbn covers symbols [BlockStart, BlockStart + BlockSymbols) of the object, i.e. octets [that * T, that * T) - for an object
\* of F = (Kt - 1) * T + r octets; compared with the public calculate_block_offsets (4.4.1.2: "the tail of the last block is padded")
BigShapes == {<<32768, 196608, 6, 32768>>, <<32768, 163841, 5, 32645>>, <<32768, 131071, 5, 32759>>, <<65535, 70000, 3, 1>>,
              <<65528, 80000, 255, 17>>, <<16, 14382765, 255, 16>>, <<4096, 1048577, 19, 1>>, <<1, 1000003, 18, 1>>}
ASSUME BigValid == \A d \in BigShapes : (d[2] + d[3] - 1) \div d[3] <= 56403 /\ d[4] \in 1..d[1] /\ d[3] <= 255
Next3 == /\ v_case.kind = "root"
         /\ \E d \in BigShapes :
              v_case' = [kind |-> "offsets", t |-> d[1], kt |-> d[2], z |-> d[3], r |-> d[4],
                         blocks |-> [b \in 1..d[3] |-> <<BlockStart(d[2], d[3], b - 1), BlockStart(d[2], d[3], b - 1) + BlockSymbols(d[2], d[3], b - 1)>>]]
Spec == Init /\ [][Next \/ Next2 \/ Next3]_vars
\* the blocks tile the symbols 0..Kt-1 in order, sizes differ by at most one and never grow
OffsetsOk == v_case.kind = "offsets" =>
  /\ v_case.blocks[1][1] = 0 /\ v_case.blocks[v_case.z][2] = v_case.kt
  /\ \A b \in 1..(v_case.z - 1) : /\ v_case.blocks[b][2] = v_case.blocks[b + 1][1]
                                   /\ (v_case.blocks[b][2] - v_case.blocks[b][1]) - (v_case.blocks[b + 1][2] - v_case.blocks[b + 1][1]) \in {0, 1}

IsCase == v_case.kind = "layout"
PartitionOk == IsCase =>
  /\ PartitionIdentities(KtOf(v_case.f, v_case.t), v_case.z)
  /\ PartitionIdentities(v_case.t \div v_case.al, v_case.n)
  /\ Len(v_case.packets) = KtOf(v_case.f, v_case.t)
\* every object byte appears exactly once, in order of its offset; only the tail of the last block is padding
CoversObject == IsCase =>
  LET F == v_case.f  T == v_case.t  Z == v_case.z  Kt == KtOf(F, T)
      offs == [i \in 1..Len(v_case.packets) |->
                 LET sbn == v_case.packets[i][1]  m == v_case.packets[i][2]
                     K == BlockSymbols(Kt, Z, sbn)
                 IN [q \in 1..T |-> BlockStart(Kt, Z, sbn) * T + BlockByteOffset(K, T, v_case.al, v_case.n, m, q - 1)]]
      all == {offs[i][q] : i \in 1..Len(v_case.packets), q \in 1..T}
  IN /\ all = 0..(Kt * T - 1)
     /\ Kt * T - F < T
     /\ \A i \in 1..Len(v_case.packets), q \in 1..T : offs[i][q] >= F => v_case.packets[i][1] = Z - 1
Emit == v_case.kind \in {"layout", "offsets"} => PrintT(ToJson(v_case))
=============================================================================
