---------------------------- MODULE Rfc6330ObjLite ----------------------------
(* The integer-only part of Rfc6330Obj (Partition and block structure) for modules that also extend Rfc6330
   (avoids name clashes with the BigNat-based object module; definitions are identical to Rfc6330Obj's). *)
EXTENDS Naturals
CeilDivL(p, q) == (p + q - 1) \div q
PartitionL(I, J) == LET IS == I \div J  JL == I - IS * J IN <<CeilDivL(I, J), IS, JL, J - JL>>
BlockSymbolsL(Kt, Z, sbn) == LET p == PartitionL(Kt, Z) IN IF sbn < p[3] THEN p[1] ELSE p[2]
BlockStartL(Kt, Z, sbn) ==
  LET p == PartitionL(Kt, Z) IN IF sbn <= p[3] THEN sbn * p[1] ELSE p[3] * p[1] + (sbn - p[3]) * p[2]
=============================================================================
