SPECIFICATION Spec
CONSTANTS Cases <- CasesThorough
CHECK_DEADLOCK FALSE
