SPECIFICATION Spec
CONSTANTS Univ <- UnivThorough  EmitHist = TRUE  HistLen = 14
INVARIANTS SetDetermined NeedK EmitBehaviour
CHECK_DEADLOCK FALSE
