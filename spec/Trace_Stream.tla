---------------------------- MODULE Trace_Stream ----------------------------
(* C18 - the repair stream is addressed consistently (fountain property).
   Specification: the packet for (block b, ESI X) is a function of (b, X) alone - Packet(b, X); a window request
   (start s, count n) on block b is <<Packet(b, K+s), ..., Packet(b, K+s+n-1)>>; the object packet list is, block by
   block in order, ESIs 0..K-1 followed by K..K+r-1, all carrying the block's number.
   The function Packet is the RFC's (solved by TLC via Rfc6330!SolveC) for K <= ORACLEMAX and T <= 2, and otherwise
   learned from the first observation; every later observation - through any window, single request, plan instance
   or encoder - must agree. *)
EXTENDS Rfc6330, Rfc6330ObjLite, TLC, Json, IOUtils
Rec == ndJsonDeserialize(IOEnv.TRACE)
OracleMax == atoi(IOEnv.ORACLEMAX)
VARIABLES v_pos, v_cfgpos, v_map, v_obs
vars == <<v_pos, v_cfgpos, v_map, v_obs>>
Chk(c, m) == IF c THEN TRUE ELSE PrintT(<<"MISMATCH", m>>) /\ FALSE

Cfg == Rec[v_cfgpos]
KsOf(e) == LET Kt == CeilDivL(e.f, e.t) IN [b \in 1..e.z |-> BlockSymbolsL(Kt, e.z, b - 1)]
\* source symbol i of block b (N = 1): the block's slice of the object, zero padded
SourceSym(e, b, i) ==
  LET Kt == CeilDivL(e.f, e.t)  start == (BlockStartL(Kt, e.z, b) + i) * e.t
  IN [j \in 1..e.t |-> IF start + j <= e.f THEN e.data[start + j] ELSE 0]
\* intermediate symbols per block and byte column, solved by TLC once per cfg event (exact mode only)
Exact(e) == e.t <= 2 /\ \A b \in 1..e.z : KsOf(e)[b] <= OracleMax
CTab == TLCEval([n \in {m \in 1..Len(Rec) : Rec[m].ev = "cfg" /\ Exact(Rec[m])} |->
          TLCEval([b \in 1..Rec[n].z |-> TLCEval([j \in 1..Rec[n].t |->
             LET K == KsOf(Rec[n])[b] IN SolveC(K, [i \in 1..K |-> SourceSym(Rec[n], b - 1, i - 1)[j]])])])])
OraclePayload(b, X) ==
  LET K == KsOf(Cfg)[b + 1]  pr == Params(K) IN
  [j \in 1..Cfg.t |-> EncSym(pr, CTab[v_cfgpos][b + 1][j], IsiOfEsi(pr, K, X))]

\* one observed packet pk = <<sbn, esi, payload>> expected at (b, X): identity, then payload by oracle / source / map
PacketOk(pk, b, X, m) ==
  /\ Chk(pk[1] = b /\ pk[2] = X, <<"packet carries the wrong identifier", "want", <<b, X>>, "got", <<pk[1], pk[2]>>>>)
  /\ Chk(Len(pk[3]) = Cfg.t, <<"payload length", b, X, Len(pk[3])>>)
  /\ IF X < KsOf(Cfg)[b + 1]
     THEN Chk(pk[3] = SourceSym(Cfg, b, X), <<"source packet differs from source symbol", b, X>>)
     ELSE IF Exact(Cfg)
          THEN Chk(pk[3] = OraclePayload(b, X), <<"repair packet differs from RFC 6330 symbol", "block", b, "esi", X>>)
          ELSE (<<b, X>> \in DOMAIN m => Chk(m[<<b, X>>] = pk[3],
                  <<"repair packet for the same ESI differs between requests", "block", b, "esi", X>>))

Learn(m, pks) == LET new == {i \in 1..Len(pks) : <<pks[i][1], pks[i][2]>> \notin DOMAIN m} IN
                 [k \in {<<pks[i][1], pks[i][2]>> : i \in new} |->
                     pks[CHOOSE i \in new : <<pks[i][1], pks[i][2]>> = k][3]] @@ m

\* an encoder built from a plan generated for a different block size may be refused; if it is accepted it is an encoder like any other
WindowOk(e) ==
  LET K == KsOf(Cfg)[e.sbn + 1] IN
  IF e.enc = "foreignplan" /\ e.res = "refused" THEN TRUE ELSE
  /\ Chk(e.res = "ok", <<"repair_packets failed", e.sbn, e.s, e.n, e.res>>)
  /\ e.res = "ok"
  /\ Chk(Len(e.packets) = e.n, <<"window length", e.s, e.n, Len(e.packets)>>)
  /\ \A i \in 1..Len(e.packets) : PacketOk(e.packets[i], e.sbn, K + e.s + i - 1, v_map)
ListOk(e) ==
  LET ks == KsOf(Cfg)
      RECURSIVE expect(_)
      expect(b) == IF b = Cfg.z THEN <<>> ELSE [i \in 1..(ks[b + 1] + e.r) |-> <<b, i - 1>>] \o expect(b + 1)
      want == expect(0)
  IN /\ Chk(e.res = "ok", <<"get_encoded_packets failed", e.res>>) /\ e.res = "ok"
     /\ Chk(Len(e.packets) = Len(want), <<"packet list length", Len(e.packets), Len(want)>>)
     /\ \A i \in 1..Len(want) : PacketOk(e.packets[i], want[i][1], want[i][2], v_map)
     /\ Chk(Cardinality({<<e.packets[i][1], e.packets[i][2]>> : i \in 1..Len(e.packets)}) = Len(e.packets), <<"duplicate packet IDs">>)

\* a long window (or one of every length up to 130 at a large symbol size): exactly n packets with the IDs K+s, K+s+1, ...,
\* and the sampled members equal (on the logged head and tail of the payload) the same packet requested singly
BigWindowOk(e) ==
  LET K == KsOf(Cfg)[e.sbn + 1] IN
  /\ Chk(e.res = "ok", <<"repair_packets failed", e.sbn, e.s, e.n, e.res>>) /\ e.res = "ok"
  /\ Chk(Len(e.ids) = e.n, <<"window length", e.s, e.n, Len(e.ids)>>)
  /\ \A i \in 1..Len(e.ids) : Chk(e.ids[i] = <<e.sbn, K + e.s + i - 1>>, <<"packet carries the wrong identifier", "want", <<e.sbn, K + e.s + i - 1>>, "got", e.ids[i]>>)
  /\ \A j \in 1..Len(e.samples) :
       LET sm == e.samples[j] IN
       /\ Chk(sm.len = Cfg.t, <<"payload length", e.sbn, K + e.s + sm.i, sm.len>>)
       /\ Chk(sm.single_id = K + e.s + sm.i /\ sm.single = sm.win,
              <<"repair packet for the same ESI differs between requests", "block", e.sbn, "esi", K + e.s + sm.i, "window", e.s, e.n>>)

Init == v_pos = 1 /\ v_cfgpos = 0 /\ v_map = <<>> /\ v_obs = 0
Step ==
  /\ v_pos <= Len(Rec)
  /\ LET e == Rec[v_pos] IN
     \/ e.ev \in {"meta", "end"} /\ UNCHANGED <<v_cfgpos, v_map, v_obs>>
     \/ e.ev = "cfg" /\ v_cfgpos' = v_pos /\ v_map' = <<>> /\ UNCHANGED v_obs
     \/ /\ e.ev = "window" /\ WindowOk(e) = TRUE
        /\ v_map' = (IF Exact(Cfg) THEN v_map ELSE Learn(v_map, e.packets)) /\ v_obs' = v_obs + Len(e.packets) /\ UNCHANGED v_cfgpos
     \/ /\ e.ev = "bigwindow" /\ BigWindowOk(e) = TRUE
        /\ v_obs' = v_obs + Len(e.ids) /\ UNCHANGED <<v_cfgpos, v_map>>
     \/ /\ e.ev = "list" /\ ListOk(e) = TRUE
        /\ v_map' = (IF Exact(Cfg) THEN v_map ELSE Learn(v_map, SelectSeq(e.packets, LAMBDA p : p[2] >= KsOf(Cfg)[p[1] + 1])))
        /\ v_obs' = v_obs + Len(e.packets) /\ UNCHANGED v_cfgpos
  /\ v_pos' = v_pos + 1
Spec == Init /\ [][Step]_vars
Accepted == LET d == TLCGet("stats").diameter IN
            IF d - 1 = Len(Rec) /\ Rec[Len(Rec)].ev = "end" THEN TRUE ELSE PrintT(<<"REJECTED", d>>) /\ FALSE
=============================================================================
