---------------------------- MODULE Rfc6330 ----------------------------
(***************************************************************************)
(* RFC 6330 (RaptorQ) block code as executable definitions, written from   *)
(* the RFC's sections 5.3.1 (K'), 5.3.3.3 (pre-code relations), 5.3.5.1-4  *)
(* (Rand, Deg, Enc, Tuple), 5.7 (field, via GF256).  Nothing below uses   *)
(* the implementation's short-cuts: HDPC rows come from the product        *)
(* MT x GAMMA, Enc indices from the loop of 5.3.5.3, rank and solution     *)
(* from plain Gaussian elimination over GF(256).                           *)
(* Conventions: symbols/columns are 0-based as in the RFC; TLA+ sequences  *)
(* are 1-based, so C[j+1] is intermediate symbol j.  T = 1 (one octet per  *)
(* symbol); larger symbols are octet columns (property C09).               *)
(***************************************************************************)
EXTENDS GF256, Rfc6330Tables, Nat32, Sequences, FiniteSets, SequencesExt

NumRows == 477
MaxK == 56403

---------------------------------------------------------------------------
(* 5.3.1 / 5.6: code parameters *)
\* index of the first Table 2 row with K' >= K
TabIdx(K) == CHOOSE ti \in 1..NumRows : Table2[ti][1] >= K /\ (ti = 1 \/ Table2[ti-1][1] < K)

IsPrime(n) == n > 1 /\ \A dv \in 2..300 : dv * dv > n \/ n % dv # 0          \* n < 90000
RECURSIVE NextPrime(_)
NextPrime(n) == IF IsPrime(n) THEN n ELSE NextPrime(n + 1)

\* record of all derived parameters for Table 2 row ti
RowParams(ti) ==
  LET r == Table2[ti]
      Kp == r[1]  S == r[3]  H == r[4]  W == r[5]
      L == Kp + S + H
      P == L - W
  IN [Kp |-> Kp, J |-> r[2], S |-> S, H |-> H, W |-> W, L |-> L, P |-> P, P1 |-> NextPrime(P),
      U |-> P - H, B |-> W - S]
ParamTab == [ti \in 1..NumRows |-> RowParams(ti)]       \* constant, evaluated once
Params(K) == ParamTab[TabIdx(K)]

---------------------------------------------------------------------------
(* 5.3.5.1 Rand[y, i, m] on the byte limbs of y *)
XorW(p, q) == <<p[1] ^^ q[1], p[2] ^^ q[2]>>
ModW(w, m) == LET r1 == w[1] % m                              \* w = <<hi16, lo16>>, m <= 2^20
                  r2 == (r1 * 256 + (w[2] \div 256)) % m
              IN (r2 * 256 + (w[2] % 256)) % m
Rand(yw, i, m) ==
  LET x0 == (yw[1] + i) % 256
      x1 == (yw[2] + i) % 256
      x2 == (yw[3] + i) % 256
      x3 == (yw[4] + i) % 256
  IN ModW(XorW(XorW(V0[x0+1], V1[x1+1]), XorW(V2[x2+1], V3[x3+1])), m)

(* 5.3.5.2 Deg[v] *)
DegF == <<0, 5243, 529531, 704294, 791675, 844104, 879057, 904023, 922747, 937311, 948962, 958494,
          966438, 973160, 978921, 983914, 988283, 992138, 995565, 998631, 1001391, 1003887, 1006157,
          1008229, 1010129, 1011876, 1013490, 1014983, 1016370, 1017662, 1048576>>
Min2(p, q) == IF p < q THEN p ELSE q
Deg(v, W) == LET dd == CHOOSE c \in 1..30 : DegF[c] <= v /\ v < DegF[c+1] IN Min2(dd, W - 2)

(* 5.3.5.4 Tuple[K', X]  (pr = parameter record of K') *)
TupleY(pr, X) ==
  LET A0 == 53591 + pr.J * 997
      A == IF A0 % 2 = 0 THEN A0 + 1 ELSE A0
      Bc == 10267 * (pr.J + 1)
  IN MulAdd32(Limbs4(X), A, Limbs4(Bc))                       \* (B + X*A) mod 2^32 on limbs
RqTuple(pr, X) ==
  LET yw == TupleY(pr, X)
      xw == Limbs4(X)
      v == Rand(yw, 0, 1048576)
      d == Deg(v, pr.W)
      a == 1 + Rand(yw, 1, pr.W - 1)
      b == Rand(yw, 2, pr.W)
      d1 == IF d < 4 THEN 2 + Rand(xw, 3, 2) ELSE 2
      a1 == 1 + Rand(xw, 4, pr.P1 - 1)
      b1 == Rand(xw, 5, pr.P1)
  IN <<d, a, b, d1, a1, b1>>
TupleInRange(pr, t) ==
  /\ 1 <= t[1] /\ t[1] <= Min2(30, pr.W - 2)
  /\ 1 <= t[2] /\ t[2] < pr.W
  /\ 0 <= t[3] /\ t[3] < pr.W
  /\ t[4] \in {2, 3}
  /\ 1 <= t[5] /\ t[5] < pr.P1
  /\ 0 <= t[6] /\ t[6] < pr.P1

(* 5.3.5.3 Enc: the sequence (with multiplicity) of intermediate symbol indices that are added *)
RECURSIVE LTIdx(_, _, _, _)
LTIdx(b, a, W, n) == IF n = 0 THEN <<>> ELSE <<b>> \o LTIdx((b + a) % W, a, W, n - 1)
RECURSIVE SkipPI(_, _, _, _)
SkipPI(b1, a1, P, P1) == IF b1 < P THEN b1 ELSE SkipPI((b1 + a1) % P1, a1, P, P1)
RECURSIVE PIIdx(_, _, _, _, _, _)
PIIdx(b1, a1, W, P, P1, n) ==
  IF n = 0 THEN <<>>
  ELSE LET c == SkipPI(b1, a1, P, P1) IN <<W + c>> \o PIIdx((c + a1) % P1, a1, W, P, P1, n - 1)
EncIdxOfTuple(pr, t) == LTIdx(t[3], t[2], pr.W, t[1]) \o PIIdx(t[6], t[5], pr.W, pr.P, pr.P1, t[4])
EncIdx(pr, X) == EncIdxOfTuple(pr, RqTuple(pr, X))

\* Enc[K', C, tuple] for one-octet symbols; C is 1-based
RECURSIVE XorIdx(_, _, _)
XorIdx(C, idx, k) == IF k > Len(idx) THEN 0 ELSE C[idx[k] + 1] ^^ XorIdx(C, idx, k + 1)
EncSym(pr, C, X) == XorIdx(C, EncIdx(pr, X), 1)
\* ISI of an encoding symbol: source symbols keep their index, repair ESIs skip the K'-K padding symbols
IsiOfEsi(pr, K, esi) == IF esi < K THEN esi ELSE esi + pr.Kp - K

---------------------------------------------------------------------------
(* 5.3.3.3 pre-code relations as rows of the constraint matrix (1-based columns 1..L) *)
\* GF(2) row of an index sequence: parity of multiplicity
RowOfIdx(idx, L) == TLCEval([c \in 1..L |-> Cardinality({k \in 1..Len(idx) : idx[k] = c - 1}) % 2])

B2N(cond) == IF cond THEN 1 ELSE 0
LdpcRow(r, pr) ==
  TLCEval([c \in 1..pr.L |->
     LET j == c - 1 IN
     IF j < pr.B THEN
        LET a == 1 + (j \div pr.S)  b0 == j % pr.S  b1 == (b0 + a) % pr.S  b2 == (b1 + a) % pr.S
        IN (B2N(r = b0) ^^ B2N(r = b1)) ^^ B2N(r = b2)
     ELSE IF j < pr.W THEN B2N(j - pr.B = r)
     ELSE LET q == j - pr.W IN B2N(q = r % pr.P) ^^ B2N(q = (r + 1) % pr.P)])

\* MT (H x (K'+S)) and GAMMA ((K'+S) x (K'+S)) exactly as defined; G_HDPC = MT x GAMMA
MT(i, j, pr) ==
  IF j = pr.Kp + pr.S - 1 THEN Alpha(i)
  ELSE LET r6 == Rand(Limbs4(j + 1), 6, pr.H)  r7 == Rand(Limbs4(j + 1), 7, pr.H - 1)
       IN B2N(i = r6 \/ i = (r6 + r7 + 1) % pr.H)
Gamma(i, j) == IF i >= j THEN Alpha((i - j) % 255) ELSE 0
RECURSIVE XorSum(_, _, _)
XorSum(f, lo, hi) == IF lo > hi THEN 0 ELSE f[lo] ^^ XorSum(f, lo + 1, hi)
HdpcRow(i, pr) ==
  LET n == pr.Kp + pr.S
      mt == TLCEval([k \in 0..(n-1) |-> MT(i, k, pr)])
  IN TLCEval([c \in 1..pr.L |->
       LET j == c - 1 IN
       IF j < n THEN XorSum([k \in j..(n-1) |-> Mul(mt[k], Gamma(k, j))], j, n - 1)
       ELSE B2N(j - n = i)])

\* the fixed S+H pre-code rows of K' (constant per parameter record; cached by the callers)
PreRows(pr) == TLCEval([r \in 1..(pr.S + pr.H) |->
                 IF r <= pr.S THEN LdpcRow(r - 1, pr) ELSE HdpcRow(r - pr.S - 1, pr)])
LtRow(pr, X) == RowOfIdx(EncIdx(pr, X), pr.L)

\* constraint matrix A for a sequence of ISIs (5.3.3.4.2): S LDPC rows, H HDPC rows, one LT row per ISI
AMatrixWith(pre, pr, isis) ==
  TLCEval([r \in 1..(pr.S + pr.H + Len(isis)) |->
     IF r <= pr.S + pr.H THEN pre[r] ELSE LtRow(pr, isis[r - pr.S - pr.H])])
AMatrix(pr, isis) == AMatrixWith(PreRows(pr), pr, isis)

---------------------------------------------------------------------------
(* Linear algebra over GF(256): rank and unique solution by Gaussian elimination *)
RECURSIVE RankGE(_, _, _, _, _)
\* M: 1..n -> row (1..L -> octet); col: current column; rk: pivots found so far
RankGE(M, n, L, col, rk) ==
  IF col > L \/ rk = n THEN rk
  ELSE LET cands == {r \in (rk+1)..n : M[r][col] # 0} IN
       IF cands = {} THEN RankGE(M, n, L, col + 1, rk)
       ELSE LET pr0 == CHOOSE r \in cands : \A r2 \in cands : r <= r2
                piv == M[pr0]
                pinv == InvTab[piv[col]]
                M2 == TLCEval([r \in 1..n |->
                        IF r = rk + 1 THEN piv
                        ELSE LET src == IF r = pr0 THEN M[rk+1] ELSE M[r] IN
                             IF r <= rk \/ src[col] = 0 THEN src
                             ELSE LET f == Mul(src[col], pinv) IN
                                  TLCEval([c \in 1..L |-> IF c < col THEN src[c] ELSE src[c] ^^ Mul(f, piv[c])])])
            IN RankGE(M2, n, L, col + 1, rk + 1)
RankOfMatrix(M, n, L) == RankGE(M, n, L, 1, 0)

\* "the received symbols determine the block": full column rank of A for the received ISIs
FullRank(pre, pr, isis) ==
  LET n == pr.S + pr.H + Len(isis) IN
  n >= pr.L /\ RankOfMatrix(AMatrixWith(pre, pr, isis), n, pr.L) = pr.L

\* Gauss-Jordan on augmented rows (L coefficients + 1 data octet); the solution C (1..L), or <<>> if singular
RECURSIVE GJ(_, _, _, _)
GJ(M, n, L, col) ==
  IF col > L THEN [c \in 1..L |-> M[c][L+1]]
  ELSE LET cands == {r \in col..n : M[r][col] # 0} IN
       IF cands = {} THEN <<>>
       ELSE LET pr0 == CHOOSE r \in cands : \A r2 \in cands : r <= r2
                pinv == InvTab[M[pr0][col]]
                piv == TLCEval([c \in 1..(L+1) |-> Mul(M[pr0][c], pinv)])
                M2 == TLCEval([r \in 1..n |->
                        IF r = col THEN piv
                        ELSE LET src == IF r = pr0 THEN M[col] ELSE M[r] IN
                             IF src[col] = 0 THEN src
                             ELSE LET f == src[col] IN
                                  TLCEval([c \in 1..(L+1) |-> src[c] ^^ Mul(f, piv[c])])])
            IN GJ(M2, n, L, col + 1)

\* 5.3.3.4.2: intermediate symbols of a source block (data: 1..K octets), D = [0^(S+H), data, 0-padding]
SolveC(K, data) ==
  LET pr == Params(K)
      A == AMatrix(pr, [k \in 1..pr.Kp |-> k - 1])
      D == [r \in 1..pr.L |-> IF r <= pr.S + pr.H THEN 0
                              ELSE IF r - pr.S - pr.H <= K THEN data[r - pr.S - pr.H] ELSE 0]
      M == TLCEval([r \in 1..pr.L |-> TLCEval([c \in 1..(pr.L+1) |-> IF c <= pr.L THEN A[r][c] ELSE D[r]])])
  IN GJ(M, pr.L, pr.L, 1)
\* the octet carried by encoding symbol esi of a K-symbol block with intermediate symbols C
PacketOctet(K, C, esi) == EncSym(Params(K), C, IsiOfEsi(Params(K), K, esi))

---------------------------------------------------------------------------
(* Certificates (linear in L): C satisfies every pre-code relation.  The HDPC product is evaluated as
   MT x (GAMMA x C): g[k] = C[k] + alpha*g[k-1] is GAMMA x C by Horner, then row i of MT selects from g. *)
\* reference form: literally the RFC's two loops (accumulate into D[0..S-1])
LdpcHoldsRef(pr, C) ==
  LET step(acc, j) == LET a == 1 + (j \div pr.S)  b0 == j % pr.S  b1 == (b0 + a) % pr.S  b2 == (b1 + a) % pr.S
                          cj == C[j+1]
                          t0 == [acc EXCEPT ![b0+1] = @ ^^ cj]
                          t1 == [t0 EXCEPT ![b1+1] = @ ^^ cj]
                      IN [t1 EXCEPT ![b2+1] = @ ^^ cj]
      acc0 == [i \in 1..pr.S |-> C[pr.B + i]]
      accB == FoldLeft(step, acc0, [j \in 1..pr.B |-> j - 1])
  IN \A i \in 0..(pr.S - 1) :
        (accB[i+1] ^^ C[pr.W + (i % pr.P) + 1]) ^^ C[pr.W + ((i + 1) % pr.P) + 1] = 0
\* the same relations regrouped per LDPC row r (linear in B instead of B*S copies): column j = q*S + b0 (a = q+1) adds
\* C[j] to rows b0, b0+a, b0+2a (mod S), so row r receives C[q*S + r], C[q*S + (r-a) mod S], C[q*S + (r-2a) mod S].
\* MC_Rank checks LdpcHolds = LdpcHoldsRef on sample vectors.
RECURSIVE LdpcRowSum(_, _, _, _)
LdpcRowSum(pr, C, r, q) ==
  IF q * pr.S >= pr.B THEN 0
  ELSE LET a == q + 1
           term(b0) == IF q * pr.S + b0 < pr.B THEN C[q * pr.S + b0 + 1] ELSE 0
       IN ((term(r) ^^ term((r + pr.S - (a % pr.S)) % pr.S)) ^^ term((r + 2 * pr.S - ((2 * a) % pr.S)) % pr.S))
          ^^ LdpcRowSum(pr, C, r, q + 1)
LdpcHolds(pr, C) ==
  \A r \in 0..(pr.S - 1) :
     ((LdpcRowSum(pr, C, r, 0) ^^ C[pr.B + r + 1]) ^^ C[pr.W + (r % pr.P) + 1]) ^^ C[pr.W + ((r + 1) % pr.P) + 1] = 0

HdpcAcc(pr, C) ==
  LET n == pr.Kp + pr.S
      \* state <<g, acc>>: g = (GAMMA x C)[k], acc[i] = sum over processed k of MT[i,k]*g[k]
      step(st, k) ==
        LET g == C[k+1] ^^ Mul(2, st[1]) IN
        IF k = n - 1 THEN <<g, [i \in 1..pr.H |-> st[2][i] ^^ Mul(Alpha(i - 1), g)]>>
        ELSE LET r6 == Rand(Limbs4(k + 1), 6, pr.H)
                 r7 == Rand(Limbs4(k + 1), 7, pr.H - 1)
                 i2 == (r6 + r7 + 1) % pr.H
                 t0 == [st[2] EXCEPT ![r6+1] = @ ^^ g]
             IN <<g, [t0 EXCEPT ![i2+1] = @ ^^ g]>>
  IN FoldLeft(step, <<0, [i \in 1..pr.H |-> 0]>>, [k \in 1..n |-> k - 1])[2]
HdpcHolds(pr, C) == LET acc == HdpcAcc(pr, C) IN \A i \in 1..pr.H : acc[i] = C[pr.Kp + pr.S + i]

\* LT relations for the source block: Enc of ISI i reproduces source symbol i (i < K) and zero padding (K <= i < K')
LtHolds(pr, K, C, data) ==
  \A i \in 0..(pr.Kp - 1) : EncSym(pr, C, i) = (IF i < K THEN data[i+1] ELSE 0)
IsSolution(K, C, data) ==
  LET pr == Params(K) IN Len(C) = pr.L /\ LdpcHolds(pr, C) /\ HdpcHolds(pr, C) /\ LtHolds(pr, K, C, data)
=============================================================================
