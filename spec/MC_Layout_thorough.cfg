SPECIFICATION Spec
CONSTANTS MaxT = 12  MaxSymbols = 9  MaxZ = 6
  Directed <- DirectedThorough
INVARIANTS PartitionOk CoversObject OffsetsOk Emit
CHECK_DEADLOCK FALSE
