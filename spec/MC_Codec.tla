---------------------------- MODULE MC_Codec ----------------------------
(* Exhaustive model of Codec on a small universe: two source blocks with K = (2, 1) (K' = 10, L = 27, so 8 and 9
   padding symbols), 5 + 4 producible packets incl. the last ESI 2^24-1, two decoder instances (the second
   created by cloning the first at any moment).  The decodability oracle is the real one - rank over GF(256) of
   the RFC constraint matrix - precomputed by TLC for all 2^5 + 2^4 packet subsets.  Every arrival order with
   repetitions, every interleaving of the blocks, every continuation after completion and every clone point is
   a path of this graph. *)
EXTENDS Rfc6330, TLC, Json
Ks == <<2, 1>>
CONSTANT Univ
UnivQuick == <<{0, 1, 2, 18, 16777215}, {0, 2, 133, 500}>>      \* {0,18} (K=2) and {133} (K=1) are rank deficient
UnivThorough == <<{0, 1, 2, 13, 18, 21, 16777215}, {0, 2, 133, 223, 500}>>
IsisOf(K, pr, S) == SetToSeq({e \in S : e < K} \cup (K..(pr.Kp - 1)) \cup {e + pr.Kp - K : e \in S \ (0..(K-1))})
Pre10 == PreRows(ParamTab[1])
RankOracle(K, S) == FullRank(Pre10, ParamTab[1], IsisOf(K, ParamTab[1], S))
\* the table, evaluated once (48 Gaussian eliminations over GF(256))
DecTab == TLCEval([b \in 1..2 |-> TLCEval([S \in SUBSET Univ[b] |-> Cardinality(S) >= Ks[b] /\ RankOracle(Ks[b], S)])])   \* TLCEval: function constructors are lazy
TabOracle(K, S) == DecTab[IF K = 2 THEN 1 ELSE 2][S]

CONSTANTS EmitHist, HistLen        \* EmitHist: carry the history of actions and print finished behaviours (simulation mode, spec -> impl)
VARIABLES v_ks, v_recv, v_memo, v_cloned, v_hist
vars == <<v_ks, v_recv, v_memo, v_cloned, v_hist>>
C == INSTANCE Codec WITH DecOracle <- TabOracle

Active == IF v_cloned THEN {1, 2} ELSE {1}
Init == /\ v_ks = Ks
        /\ v_recv = [d \in {1, 2} |-> [b \in 0..1 |-> {}]]
        /\ v_memo = [d \in {1, 2} |-> [b \in 0..1 |-> FALSE]]
        /\ v_cloned = FALSE /\ v_hist = <<>>
LogStep(rec) == IF EmitHist THEN v_hist' = Append(v_hist, rec) ELSE UNCHANGED v_hist
Next == /\ (EmitHist => Len(v_hist) < HistLen)
        /\ \/ \E d \in Active, b \in 0..1 : \E e \in Univ[b + 1] :
                /\ C!Deliver(d, b, e) /\ UNCHANGED <<v_ks, v_cloned>>
                \* expected observable state after the call: reconstructed flags of both blocks and whether the object is returned
                /\ LogStep([op |-> "deliver", dec |-> d, sbn |-> b, esi |-> e, memo |-> <<v_memo'[d][0], v_memo'[d][1]>>,
                            answer |-> (v_memo'[d][0] /\ v_memo'[d][1])])
           \/ ~v_cloned /\ C!Clone(1, 2) /\ v_cloned' = TRUE /\ UNCHANGED v_ks /\ LogStep([op |-> "clone", dec |-> 1, to |-> 2])
Spec == Init /\ [][Next]_vars

EmitBehaviour == EmitHist /\ Len(v_hist) = HistLen => PrintT(ToJson([steps |-> v_hist]))
Answer(d) == IF C!Complete(d) THEN "object" ELSE "none"
\* C08: what a decoder answers is a function of the sets it received, whatever the path
SetDetermined == \A d \in Active, b \in 0..1 : v_memo[d][b] <=> C!Decodable(b, v_recv[d][b])
\* C01: whenever all source packets of every block were delivered the object is returned
CompleteWhenAllSource == \A d \in Active : (\A b \in 0..1 : C!AllSource(b, v_recv[d][b])) => Answer(d) = "object"
\* C02 (necessity): a block is never reconstructed from fewer than K distinct symbols
NeedK == \A d \in Active, b \in 0..1 : v_memo[d][b] => Cardinality(v_recv[d][b]) >= Ks[b + 1]
\* two decoders that received the same sets agree (clone / order independence)
SameSetsSameAnswer == v_cloned /\ v_recv[1] = v_recv[2] => v_memo[1] = v_memo[2]
\* C08: an answer, once given, is given forever
Stable == [][\A d \in {1, 2} : C!Complete(d) => C!Complete(d)']_vars
\* Liveness (C01, "whenever all source packets of every block have been delivered it does return the object", as a
\* temporal property): on a channel that eventually delivers every source packet to decoder 1, whatever else is
\* delivered, duplicated or interleaved meanwhile, decoder 1 eventually answers - and by Stable keeps answering.
FairSpec == Spec /\ \A b \in 0..1 : \A e \in 0..(Ks[b + 1] - 1) : WF_vars(C!Deliver(1, b, e) /\ UNCHANGED <<v_ks, v_cloned, v_hist>> /\ ~v_memo[1][b])
EventuallyAnswers == <>[]C!Complete(1)
\* ... and a clone made at any moment that is fed nothing more never changes its mind
CloneFrozen == [][v_cloned /\ v_recv'[2] = v_recv[2] => v_memo'[2] = v_memo[2]]_vars

\* oracle sanity (constant-level facts TLC evaluates once): decodability is monotone and needs K symbols
ASSUME OracleMonotone == \A b \in 1..2 : \A S \in SUBSET Univ[b] : \A e \in Univ[b] : DecTab[b][S] => DecTab[b][S \cup {e}]
ASSUME OracleSourceOnly == \A b \in 1..2 : DecTab[b][0..(Ks[b] - 1)]
ASSUME OracleNontrivial == \E b \in 1..2 : \E S \in SUBSET Univ[b] : Cardinality(S) >= Ks[b] /\ ~DecTab[b][S]
=============================================================================
