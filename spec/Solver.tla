---------------------------- MODULE Solver ----------------------------
(* Inactivation decoding, RFC 6330 section 5.4.2, as a state machine over the LOGICAL coefficient matrix B: rows and
   columns in their current, permuted positions, with the counters i and u of Figure 6.  The first i columns and rows
   form an identity block with zeros below it and zeros to its right above the submatrix V; the last u columns are U.

   Phase1Step is deliberately liberal: any row with a nonzero in V may be chosen, any of its ones may become the pivot,
   the others are moved into U in any order.  The minimum-r and graph-component rules of the RFC are a performance
   heuristic and not part of the contract.  Phase 2 succeeds iff U_lower has full column rank.  The predicates below,
   Fig6 and AfterPhase2..5, are also what Trace_Solver checks on the real solver at every first-phase step and at
   every phase end. *)
EXTENDS Naturals, FiniteSets, Sequences

\* B is a function [0..nr-1 -> [0..nc-1 -> octet]]; predicates are parameterised so that the trace spec can reuse them
Delta(r, c) == IF r = c THEN 1 ELSE 0
Fig6(B, nr, nc, i, u) ==
  /\ i + u <= nc
  /\ \A r \in 0..(i - 1), c \in 0..(i - 1) : B[r][c] = Delta(r, c)               \* I
  /\ \A r \in i..(nr - 1), c \in 0..(i - 1) : B[r][c] = 0                          \* zeros below I
  /\ \A r \in 0..(i - 1), c \in i..(nc - u - 1) : B[r][c] = 0                      \* zeros right of I (above V)
\* after the second phase: U_lower is the identity, surplus rows are zero
AfterPhase2(B, nr, nc, i) ==
  /\ Fig6(B, nr, nc, i, nc - i)
  /\ \A r \in i..(nc - 1), c \in i..(nc - 1) : B[r][c] = Delta(r, c)
  /\ \A r \in nc..(nr - 1), c \in 0..(nc - 1) : B[r][c] = 0
\* after the third phase (errata 10: upper rows multiplied by X): upper-left is lower triangular with unit diagonal
AfterPhase3(B, nr, nc, i) ==
  /\ \A r \in 0..(i - 1) : B[r][r] = 1 /\ \A c \in (r + 1)..(i - 1) : B[r][c] = 0
  /\ \A r \in i..(nc - 1), c \in 0..(nc - 1) : B[r][c] = Delta(r, c)
\* after the fourth phase: U_upper is zero
AfterPhase4(B, nr, nc, i) ==
  /\ AfterPhase3(B, nr, nc, i)
  /\ \A r \in 0..(i - 1), c \in i..(nc - 1) : B[r][c] = 0
\* after the fifth phase: the identity
AfterPhase5(B, nr, nc) == \A r \in 0..(nc - 1), c \in 0..(nc - 1) : B[r][c] = Delta(r, c)
=============================================================================
