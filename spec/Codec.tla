---------------------------- MODULE Codec ----------------------------
(***************************************************************************)
(* Abstract decoder state machine of RFC 6330 objects (properties C01,     *)
(* C02, C08).  A decoder instance holds, per source block, the set of      *)
(* distinct ESIs delivered so far and whether the block has been           *)
(* reconstructed ("memo").  The only rule: a block is reconstructed at the *)
(* first delivery after which the received set is decodable, where         *)
(*      Decodable(K, S)  ==  all K source symbols are in S, or the RFC      *)
(*                            constraint matrix for S has full rank        *)
(* (Rfc6330!FullRank, computed by Gaussian elimination over GF(256)).      *)
(* The object is returned iff every block is reconstructed, and then it is *)
(* exactly the F original bytes.  Nothing else (arrival order, duplicates, *)
(* batching, cloning) enters the state - that is property C08.             *)
(*                                                                         *)
(* The module is parameterised by the decodability oracle so that the      *)
(* exhaustive model (MC_Codec: precomputed table) and the trace spec       *)
(* (Trace_Codec: rank on demand) share the same actions.                   *)
(***************************************************************************)
EXTENDS Naturals, FiniteSets, Sequences

CONSTANT DecOracle(_, _)      \* DecOracle(K, S): does the ESI set S determine a K-symbol block? (constant-level)

VARIABLES v_ks,              \* the configuration: sequence of block sizes <<K_0, ..., K_(Z-1)>>
          v_recv,            \* [decoder -> [block -> set of ESIs]]
          v_memo             \* [decoder -> [block -> BOOLEAN]]

Blocks == 0..(Len(v_ks) - 1)
KOf(b) == v_ks[b + 1]
Dec(b, S) == DecOracle(KOf(b), S)

AllSource(b, S) == \A i \in 0..(KOf(b) - 1) : i \in S
Decodable(b, S) == AllSource(b, S) \/ (Cardinality(S) >= KOf(b) /\ Dec(b, S))

Complete(d) == \A b \in Blocks : v_memo[d][b]

\* Decoder::decode / add_new_packet: one packet (b, e) to object decoder d.  A reconstructed block ignores packets.
Deliver(d, b, e) ==
  IF v_memo[d][b]
  THEN UNCHANGED <<v_recv, v_memo>>
  ELSE LET S == v_recv[d][b] \cup {e} IN
       /\ v_recv' = [v_recv EXCEPT ![d][b] = S]
       /\ v_memo' = [v_memo EXCEPT ![d][b] = Decodable(b, S)]

\* SourceBlockDecoder::decode(batch): a set of packets of one block at once; no memo short-cut at this level
DeliverBatch(d, b, es) ==
  LET S == v_recv[d][b] \cup es IN
  /\ v_recv' = [v_recv EXCEPT ![d][b] = S]
  /\ v_memo' = [v_memo EXCEPT ![d][b] = v_memo[d][b] \/ Decodable(b, S)]     \* decodability is monotone in S

Clone(d, d2) ==
  /\ v_recv' = [v_recv EXCEPT ![d2] = v_recv[d]]
  /\ v_memo' = [v_memo EXCEPT ![d2] = v_memo[d]]
=============================================================================
