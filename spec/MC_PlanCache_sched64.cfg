SPECIFICATION Spec
CONSTANTS Threads = {1, 2, 3}  Keys = {70, 71, 5}  Cap = 64  Reqs = 0  Prefill <- Prefill64  EmitSchedules = TRUE  InitialKeys = TRUE
INVARIANTS Bounded Bijection RightPlanCached Transparent Emit
CHECK_DEADLOCK FALSE
