SPECIFICATION Spec
CONSTANTS NR = 5  NC = 3
INVARIANTS Figure6 RankInvariant SolvedIffDetermined
CHECK_DEADLOCK FALSE
