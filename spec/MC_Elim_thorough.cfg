SPECIFICATION Spec
CONSTANT NEq = 3
INVARIANTS SolutionSetPreserved IdentityReadsSolution
CHECK_DEADLOCK FALSE
