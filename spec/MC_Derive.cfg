SPECIFICATION Spec
CONSTANTS
  Ps = {1, 7, 8, 63, 64, 65, 71, 72, 1024, 1280, 4096}
  KpSel = {10, 12, 101, 55843, 56403}
  Mults = {1, 2, 255}
INVARIANTS TMaximal ZMinimal NMinimal Constructible MonotoneInWS Emit
CHECK_DEADLOCK FALSE
