SPECIFICATION Spec
CONSTANTS
  Ts = {1, 2, 3, 4, 8, 255, 256, 1024, 65535}
  Zs = {1, 2, 3, 254, 255}
  Als = {1, 2, 3, 4, 8, 255}
  Ns = {1, 7}
INVARIANTS AcceptEquivProduct Emit
CHECK_DEADLOCK FALSE
