SPECIFICATION Spec
CONSTANTS MaxT = 8  MaxSymbols = 6  MaxZ = 4
  Directed <- DirectedQuick
INVARIANTS PartitionOk CoversObject OffsetsOk Emit
CHECK_DEADLOCK FALSE
