SPECIFICATION Spec
CONSTANTS Threads = {1, 2, 3}  Keys = {1, 2, 3}  Cap = 2  Reqs = 2  Prefill <- PrefillEmpty  EmitSchedules = FALSE  InitialKeys = FALSE
INVARIANTS Bounded Bijection RightPlanCached Transparent
CHECK_DEADLOCK FALSE
