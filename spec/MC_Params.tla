---------------------------- MODULE MC_Params ----------------------------
(* C15 on the specification: (a) the Table 2 parameters are consistent for every row (and hence every K);
   (b) spec -> impl: TLC *solves* for the internal symbol IDs at which y = (B + X*A) mod 2^32 lands on
   2^32-1 or 2^32-2 - the only values where the 32-bit additions y+1, y+2 inside Rand wrap - by inverting
   the odd multiplier A modulo 2^32 on byte limbs, and emits those that a 24-bit ESI can reach. *)
EXTENDS Rfc6330, TLC, Json, Integers
CONSTANTS ScanRows, ScanChunks, ScanChunkSize,     \* the tuple-boundary search: rows of Table 2, and X in 0..ScanChunks*ScanChunkSize-1
          DeepRows, DeepChunks                     \* rows scanned much further (every single threshold value is then hit several times)
VARIABLE v_case
vars == <<v_case>>

\* y targets as byte limbs: 2^32-1 and 2^32-2
YTargets == {<<255, 255, 255, 255>>, <<254, 255, 255, 255>>}
AofRow(pr) == LET A0 == 53591 + pr.J * 997 IN IF A0 % 2 = 0 THEN A0 + 1 ELSE A0
BofRow(pr) == 10267 * (pr.J + 1)
\* X = (y - B) * A^-1 mod 2^32
SolveX(pr, yw) == Mul32(Sub32(yw, Limbs4(BofRow(pr))), Inv32(Limbs4(AofRow(pr))))
PrevKp(ti) == IF ti = 1 THEN 0 ELSE Table2[ti-1][1]
\* largest ISI reachable from a 24-bit ESI for this K': ESI <= 2^24-1, K >= PrevKp+1
MaxIsi(ti) == 16777215 + Table2[ti][1] - (PrevKp(ti) + 1)

Init == v_case = [kind |-> "root"]
Next == /\ v_case.kind = "root"
        /\ \E ti \in 1..NumRows :
             \/ v_case' = [kind |-> "row", ti |-> ti]
             \/ \E yw \in YTargets :
                  LET pr == ParamTab[ti]  xw == SolveX(pr, yw) IN
                  /\ L4Fits31(xw) /\ L4ToInt(xw) <= MaxIsi(ti)
                  /\ LET X == L4ToInt(xw)
                         \* a K for which ISI X is a repair symbol: K' - K <= X - K, i.e. any K with ESI = X-(K'-K) >= K
                         K == PrevKp(ti) + 1
                     IN v_case' = [kind |-> "wrap", ti |-> ti, kp |-> pr.Kp, k |-> (IF X - (pr.Kp - K) >= K /\ X - (pr.Kp - K) < 16777216 THEN K ELSE pr.Kp),
                                   x |-> X, y |-> yw, t |-> RqTuple(pr, X)]
(* (c) spec -> impl, boundary search: internal symbol IDs whose degree draw v = Rand[y, 0, 2^20] lands exactly on a
   threshold of the degree table (v = f[d] or v = f[d] - 1, incl. v = 0), where "first d with v < f[d]" is decided by
   a single unit, and IDs whose PI index walk has to skip (b1 >= P).  TLC scans X chunk by chunk. *)
DegV(pr, X) == Rand(TupleY(pr, X), 0, 1048576)
Thresholds == {DegF[c] : c \in 1..31} \cup {DegF[c] - 1 : c \in 2..31}
IsEdge(pr, X) == DegV(pr, X) \in Thresholds
NextScan ==
  \/ /\ v_case.kind = "root"
     /\ \E ti \in ScanRows \cup DeepRows : \E c \in 0..((IF ti \in DeepRows THEN DeepChunks ELSE ScanChunks) - 1) :
          v_case' = [kind |-> "chunk", ti |-> ti, c |-> c]
  \/ /\ v_case.kind = "chunk"
     /\ LET pr == ParamTab[v_case.ti] IN
        \E X \in {x \in (v_case.c * ScanChunkSize)..((v_case.c + 1) * ScanChunkSize - 1) : IsEdge(pr, x)} :
           v_case' = [kind |-> "edge", ti |-> v_case.ti, kp |-> pr.Kp, k |-> pr.Kp, x |-> X, v |-> DegV(pr, X), t |-> RqTuple(pr, X)]
Spec == Init /\ [][Next \/ NextScan]_vars
EdgeInRange == v_case.kind = "edge" => TupleInRange(ParamTab[v_case.ti], v_case.t)

ParamsConsistent == v_case.kind = "row" =>
  LET ti == v_case.ti  pr == ParamTab[ti] IN
  /\ (ti > 1 => Table2[ti-1][1] < pr.Kp)                  \* strictly increasing: "smallest K' >= K" is well defined
  /\ (ti = 1 => pr.Kp = 10) /\ (ti = NumRows => pr.Kp = MaxK)
  /\ IsPrime(pr.S) /\ IsPrime(pr.W)
  /\ IsPrime(pr.P1) /\ pr.P1 >= pr.P /\ \A q \in pr.P..(pr.P1 - 1) : ~IsPrime(q)
  /\ pr.B >= 1 /\ pr.P >= pr.H /\ pr.H >= 2 /\ pr.U >= 0
  /\ pr.L < 65536 /\ pr.W >= 4 /\ pr.P1 >= 3
  /\ pr.Kp + pr.S >= pr.W                                   \* errata 2: the PI symbols are the last P
TablesWellFormed == v_case.kind = "row" =>
  /\ Len(V0) = 256 /\ Len(V1) = 256 /\ Len(V2) = 256 /\ Len(V3) = 256
  /\ \A i \in 1..256 : \A tb \in {V0, V1, V2, V3} : tb[i][1] \in 0..65535 /\ tb[i][2] \in 0..65535
\* boundary internal symbol IDs of every row have in-range tuples (spec sanity for C15's range claim)
TuplesInRange == v_case.kind = "row" =>
  LET pr == ParamTab[v_case.ti] IN
  \A X \in (0..20) \cup {pr.Kp - 1, pr.Kp, 16777215, 16777216, MaxIsi(v_case.ti)} : TupleInRange(pr, RqTuple(pr, X))
\* the solved X really produces the wrapping y, and its tuple is in range
WrapSolved == v_case.kind = "wrap" =>
  /\ TupleY(ParamTab[v_case.ti], v_case.x) = v_case.y
  /\ TupleInRange(ParamTab[v_case.ti], v_case.t)
Emit == v_case.kind \in {"wrap", "edge"} => PrintT(ToJson(v_case))
=============================================================================
