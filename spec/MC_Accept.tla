---------------------------- MODULE MC_Accept ----------------------------
(* C19, spec -> impl: TLC enumerates the boundary lattice of the configuration constructor.  For every
   (T, Z) it *computes* where the limits lie (56403*Z*T, the errata-5548 maximum, multiples of 2^32*T where a
   32-bit quotient would wrap) and emits each candidate with the verdict of Accept; the harness replays them
   on ObjectTransmissionInformation::new.  Invariants check Accept against an independent formulation. *)
EXTENDS Rfc6330Obj, TLC, Json, Integers
CONSTANTS Ts, Zs, Als, Ns
VARIABLE v_case
vars == <<v_case>>

Clip(S) == {w \in S : BnFits40(w) \/ w = Bn2p40}
FCands(T, Z) ==
  LET lim == BnMulSmall(BnMulSmall(BnFromInt(KMax), Z), T)        \* 56403 * Z * T
      near(w) == {BnSub(w, BnFromInt(1)), w, BnAddSmall(w, 1), BnAddSmall(w, T), BnSub(w, BnFromInt(T))}
      wraps == {BnAdd(BnMulSmall(BnMulSmall(Bn2p32, k), T), BnFromInt(c)) : k \in {1, 2, 3, 100}, c \in {0, 1, 5, 56403, 56404}}
      wrapsZ == {BnAdd(BnMulSmall(Bn2p32, T), lim)}
  IN Clip(near(lim) \cup near(BnMaxTransfer) \cup near(Bn2p32) \cup wraps \cup wrapsZ
          \cup {BnFromInt(1), BnFromInt(T), BnFromInt(0), BnSub(Bn2p40, BnFromInt(1))})

Init == v_case = [kind |-> "root"]
Next == /\ v_case.kind = "root"
        /\ \E T \in Ts, Z \in Zs, Al \in Als, N \in Ns : \E F \in FCands(T, Z) :
              v_case' = [kind |-> "accept", f |-> F, t |-> T, z |-> Z, n |-> N, al |-> Al,
                         accept |-> Accept(F, T, Z, Al)]
Spec == Init /\ [][Next]_vars

\* independent formulation: ceil(ceil(F/T)/Z) <= Kmax  <=>  F <= Kmax*Z*T
AcceptEquivProduct ==
  v_case.kind = "accept" =>
    (v_case.accept <=> /\ BnLe(v_case.f, BnMaxTransfer) /\ v_case.t % v_case.al = 0
                       /\ BnLe(v_case.f, BnMulSmall(BnMulSmall(BnFromInt(KMax), v_case.z), v_case.t)))
ASSUME MaxIsProduct == BnMaxTransfer = BnMulSmall(BnMulSmall(BnFromInt(65535), 255), 56403)
Emit == v_case.kind = "accept" => PrintT(ToJson(v_case))
=============================================================================
