SPECIFICATION Spec
CONSTANTS Threads = {1}  Cap = 64
POSTCONDITION Accepted
CHECK_DEADLOCK FALSE
