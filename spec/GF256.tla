---------------------------- MODULE GF256 ----------------------------
(***************************************************************************)
(* The finite field GF(2^8) of RFC 6330 section 5.7, built from its        *)
(* definition: polynomials over GF(2) modulo x^8 + x^4 + x^3 + x^2 + 1     *)
(* (0x11D = 285), generator alpha = x = 2.  Nothing here is copied from    *)
(* the implementation's tables; MC_GF256 checks the field axioms           *)
(* exhaustively so that "Mul" *is* the RFC field multiplication.           *)
(***************************************************************************)
EXTENDS Naturals, Bitwise, TLC

Byte == 0..255

GfBit(n, i) == (n \div (2^i)) % 2

\* carry-less product of two polynomials of degree < 8 (result degree < 15)
ClMul(p, q) ==
  LET t0 == IF GfBit(q,0) = 1 THEN p ELSE 0
      t1 == IF GfBit(q,1) = 1 THEN t0 ^^ (p*2) ELSE t0
      t2 == IF GfBit(q,2) = 1 THEN t1 ^^ (p*4) ELSE t1
      t3 == IF GfBit(q,3) = 1 THEN t2 ^^ (p*8) ELSE t2
      t4 == IF GfBit(q,4) = 1 THEN t3 ^^ (p*16) ELSE t3
      t5 == IF GfBit(q,5) = 1 THEN t4 ^^ (p*32) ELSE t4
      t6 == IF GfBit(q,6) = 1 THEN t5 ^^ (p*64) ELSE t5
      t7 == IF GfBit(q,7) = 1 THEN t6 ^^ (p*128) ELSE t6
  IN t7

\* reduction modulo x^8+x^4+x^3+x^2+1 of a polynomial of degree < 15
Reduce(n) ==
  LET r14 == IF GfBit(n,14) = 1 THEN n ^^ (285*64) ELSE n
      r13 == IF GfBit(r14,13) = 1 THEN r14 ^^ (285*32) ELSE r14
      r12 == IF GfBit(r13,12) = 1 THEN r13 ^^ (285*16) ELSE r13
      r11 == IF GfBit(r12,11) = 1 THEN r12 ^^ (285*8) ELSE r12
      r10 == IF GfBit(r11,10) = 1 THEN r11 ^^ (285*4) ELSE r11
      r9 == IF GfBit(r10,9) = 1 THEN r10 ^^ (285*2) ELSE r10
      r8 == IF GfBit(r9,8) = 1 THEN r9 ^^ 285 ELSE r9
  IN r8

PolyMul(p, q) == Reduce(ClMul(p, q))

\* constant-level tables, evaluated once by TLC
MulTab == [p \in Byte |-> [q \in Byte |-> PolyMul(p, q)]]
Mul(p, q) == MulTab[p][q]
Add(p, q) == p ^^ q

InvTab == [p \in 1..255 |-> CHOOSE q \in 1..255 : Mul(p, q) = 1]
Inv(p) == InvTab[p]
Div(p, q) == IF p = 0 THEN 0 ELSE Mul(p, InvTab[q])        \* q # 0

RECURSIVE GfPow(_)
GfPow(e) == IF e = 0 THEN 1 ELSE Mul(2, GfPow(e - 1))
\* RFC 5.7.3 OCT_EXP has 510 entries: alpha^i for i in 0..509
ExpTab == [e \in 0..509 |-> GfPow(e % 255)]
Alpha(e) == ExpTab[e]
\* RFC 5.7.4 OCT_LOG: discrete logarithm of the non-zero elements
LogTab == [p \in 1..255 |-> CHOOSE e \in 0..254 : ExpTab[e] = p]

\* Nibble split used by the vector kernels: c*x = c*(x mod 16) + c*(x div 16)*16
NibLo(c, x) == Mul(c, x % 16)
NibHi(c, x) == Mul(c, (x \div 16) * 16)
=============================================================================
