---------------------------- MODULE Kernels ----------------------------
(***************************************************************************)
(* The bulk symbol operations (properties C11, C12): in-place updates of a *)
(* window [off, off+n) of a byte arena.  Each is defined element-wise by   *)
(* the field operations of GF256; everything outside the window is         *)
(* unchanged (frame condition).  The packed binary vector is specified     *)
(* with its layout: n values in ceil(n/64) 64-bit words, value k at bit    *)
(* pad+k counted from the least significant bit of the first word, where   *)
(* pad = (64 - n mod 64) mod 64; the pad low bits are arbitrary.           *)
(***************************************************************************)
EXTENDS GF256, Sequences
VARIABLE v_arena

InWin(i, off, n) == off < i /\ i <= off + n                    \* 1-based index i inside the 0-based window
Upd(off, n, f(_)) == [i \in 1..Len(v_arena) |-> IF InWin(i, off, n) THEN f(i) ELSE v_arena[i]]

\* dest ^= src
AddAssign(off, src) == v_arena' = Upd(off, Len(src), LAMBDA i : v_arena[i] ^^ src[i - off])
\* dest *= c
MulAssign(off, n, c) == v_arena' = Upd(off, n, LAMBDA i : Mul(c, v_arena[i]))
\* dest ^= c * src
Fma(off, src, c) == v_arena' = Upd(off, Len(src), LAMBDA i : v_arena[i] ^^ Mul(c, src[i - off]))

\* packed bits: words is a sequence of 8-byte little-endian words
PadBits(n) == (64 - (n % 64)) % 64
BitAt(words, n, k) ==                                           \* value k (0-based) of an n-element packed vector
  LET pos == PadBits(n) + k
      byte == words[(pos \div 64) + 1][((pos % 64) \div 8) + 1]
  IN (byte \div (2 ^ (pos % 8))) % 2
\* dest ^= c * bits
FmaBinary(off, n, words, c) == v_arena' = Upd(off, n, LAMBDA i : IF BitAt(words, n, i - off - 1) = 1 THEN v_arena[i] ^^ c ELSE v_arena[i])
Unpack(words, n) == [k \in 1..n |-> BitAt(words, n, k - 1)]
=============================================================================
