---------------------------- MODULE Trace_PlanCache ----------------------------
(* impl -> spec for C17: the critical sections of free-running threads, recorded under the cache mutex (so the log
   order is the order in which they happened), must be a behaviour of PlanCache: each logged critical section is
   the corresponding PlanCache action of that thread (a look-up implicitly starts the request), its kind (hit / miss
   / race / new) must be the one the specification's state dictates, and the logged map and FIFO must equal the
   specification's afterwards.  "ret" events assert transparency: the encoder a request produced equals the one
   built without the cache. *)
EXTENDS PlanCache, TLC, Json, IOUtils
Rec == ndJsonDeserialize(IOEnv.TRACE)
VARIABLES v_pos, v_cs
vars == <<v_pos, v_cs, v_pc, v_key, v_plans, v_fifo, v_ret>>
Chk(c, m) == IF c THEN TRUE ELSE PrintT(<<"MISMATCH", m>>) /\ FALSE

PlansOf(e) == [k \in {e.plans[i][1] : i \in 1..Len(e.plans)} |-> (CHOOSE i \in 1..Len(e.plans) : e.plans[i][1] = k) ]
LoggedPlans(e) == [k \in {e.plans[i][1] : i \in 1..Len(e.plans)} |-> e.plans[CHOOSE i \in 1..Len(e.plans) : e.plans[i][1] = k][2]]

StateOk(e) ==
  /\ Chk(e.fifo = v_fifo', <<"FIFO differs from the specification after", e.kind, "key", e.key, "thread", e.t,
                             "len", Len(e.fifo), "spec len", Len(v_fifo')>>)
  /\ Chk(LoggedPlans(e) = v_plans', <<"cached plans differ from the specification after", e.kind, "key", e.key>>)
  /\ Chk(Len(e.plans) <= Cap, <<"cache exceeds its capacity", Len(e.plans)>>)

CsStep(e) ==
  LET t == e.t IN
  /\ CASE e.kind = "hit" -> /\ Chk(v_pc[t] = "Idle" /\ e.key \in DOMAIN v_plans, <<"hit reported for a key that is not cached", e.key, "thread", t>>) = TRUE
                            /\ RequestHit(t, e.key)
       [] e.kind = "miss" -> /\ Chk(v_pc[t] = "Idle" /\ e.key \notin DOMAIN v_plans, <<"miss reported for a cached key", e.key, "thread", t>>) = TRUE
                             /\ RequestMiss(t, e.key)
       [] e.kind = "race" -> /\ Chk(v_pc[t] = "Insert" /\ v_key[t] = e.key /\ e.key \in DOMAIN v_plans, <<"insert-race out of order", e.key, "thread", t, v_pc[t]>>) = TRUE
                             /\ InsertRace(t)
       [] e.kind = "new" -> /\ Chk(v_pc[t] = "Insert" /\ v_key[t] = e.key /\ e.key \notin DOMAIN v_plans, <<"insert of a key that is already cached / out of order", e.key, "thread", t, v_pc[t]>>) = TRUE
                            /\ InsertNew(t)
  /\ StateOk(e) = TRUE
  /\ v_cs' = v_cs + 1

Init == /\ v_pos = 1 /\ v_cs = 0
        /\ v_pc = [t \in Threads |-> "Idle"] /\ v_key = [t \in Threads |-> 0] /\ v_ret = [t \in Threads |-> 0]
        /\ v_plans = <<>> /\ v_fifo = <<>>
Step ==
  /\ v_pos <= Len(Rec)
  /\ LET e == Rec[v_pos] IN
     \/ e.ev \in {"meta", "end"} /\ UNCHANGED <<v_cs, v_pc, v_key, v_plans, v_fifo, v_ret>>
     \/ e.ev = "cs" /\ CsStep(e)
     \/ /\ e.ev = "ret" /\ UNCHANGED <<v_cs, v_pc, v_key, v_plans, v_fifo, v_ret>>
        /\ Chk(e.same, <<"encoder built through the cache differs from the cache-less one", "key", e.key, "thread", e.t>>) = TRUE
  /\ v_pos' = v_pos + 1
Spec == Init /\ [][Step]_vars
\* the cache invariants hold in every state reached by the real execution
Accepted == LET d == TLCGet("stats").diameter IN
            IF d - 1 = Len(Rec) /\ Rec[Len(Rec)].ev = "end" THEN TRUE ELSE PrintT(<<"REJECTED", d>>) /\ FALSE
=============================================================================
