SPECIFICATION Spec
CONSTANT Univ <- UnivThorough
INVARIANTS SetDetermined CompleteWhenAllSource NeedK SameSetsSameAnswer
PROPERTY Stable
CHECK_DEADLOCK FALSE
