SPECIFICATION Spec
CONSTANTS Univ <- UnivThorough  EmitHist = FALSE  HistLen = 0
INVARIANTS SetDetermined CompleteWhenAllSource NeedK SameSetsSameAnswer
PROPERTY Stable
CHECK_DEADLOCK FALSE
