SPECIFICATION Spec
INVARIANTS Invertible ParamsSane LdpcFormsAgree LdpcSolutionOk
CHECK_DEADLOCK FALSE
