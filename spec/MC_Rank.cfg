SPECIFICATION Spec
INVARIANTS Invertible ParamsSane
CHECK_DEADLOCK FALSE
