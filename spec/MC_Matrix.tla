---------------------------- MODULE MC_Matrix ----------------------------
(* Drivers for Matrix.tla (C16).
   (a) Exhaustive: every admissible operation with every argument on tiny shapes (Spec), with the invariant that
       bookkeeping stays well-formed and the action property that full row additions preserve the GF(2) row space
       (the fact the solver relies on).
   (b) Generation for replay (SimSpec, run with -simulate): one behaviour = the life of a matrix as the solver uses it
       - fill, index, {row/column swaps, column queries, single-one row additions, freezes, range queries}*, un-index,
       resize, free row additions and tail queries - with arguments drawn at random inside each action and the
       expected answer of every query recorded; each finished behaviour is printed as one JSON line and replayed on
       DenseBinaryMatrix and SparseBinaryMatrix. *)
EXTENDS Matrix, TLC, Json, Randomization, Integers
CONSTANTS Shapes,            \* set of <<h, w, hint>> (as records) to start from
          IndexedSteps, FreeSteps
VARIABLES v_phase, v_hist, v_left
vars == <<v_h, v_w, v_rows, v_undef, v_dense, v_indexed, v_stale, v_phase, v_hist, v_left>>

TinyShapes == {[h |-> 3, w |-> 2, hint |-> 1], [h |-> 2, w |-> 2, hint |-> 1], [h |-> 3, w |-> 3, hint |-> 2],
               [h |-> 2, w |-> 2, hint |-> 0]}      \* no dense tail at all: the highest key of the column index is a column
\* widths around the 64-bit word boundaries; tails that start below a word boundary and are grown across it by freezing
SimShapes == {[h |-> 5, w |-> 1, hint |-> 1], [h |-> 9, w |-> 5, hint |-> 1], [h |-> 70, w |-> 63, hint |-> 2], [h |-> 64, w |-> 64, hint |-> 1],
              [h |-> 80, w |-> 65, hint |-> 2], [h |-> 140, w |-> 127, hint |-> 63], [h |-> 130, w |-> 128, hint |-> 64],
              [h |-> 150, w |-> 129, hint |-> 62], [h |-> 140, w |-> 130, hint |-> 1], [h |-> 210, w |-> 200, hint |-> 127],
              [h |-> 260, w |-> 200, hint |-> 64], [h |-> 200, w |-> 190, hint |-> 126], [h |-> 100, w |-> 100, hint |-> 1],
              \* no dense tail (hint 0), square and one taller
              [h |-> 8, w |-> 8, hint |-> 0], [h |-> 9, w |-> 8, hint |-> 0], [h |-> 64, w |-> 64, hint |-> 0], [h |-> 65, w |-> 65, hint |-> 0],
              [h |-> 130, w |-> 130, hint |-> 0],
              \* more than five words per row
              [h |-> 360, w |-> 352, hint |-> 1],
              \* tall matrices whose tail crosses a word boundary only in the SECOND indexed phase (after a resize)
              [h |-> 300, w |-> 100, hint |-> 28], [h |-> 260, w |-> 130, hint |-> 92]}
Rnd(S) == RandomElement(S)
Log(op) == v_hist' = Append(v_hist, op)
SetSeq(S) == LET RECURSIVE f(_) f(T) == IF T = {} THEN <<>> ELSE LET x == CHOOSE y \in T : \A z \in T : y <= z IN <<x>> \o f(T \ {x}) IN f(S)
Snapshot == [op |-> "checkall", rows |-> [i \in 1..v_h' |-> SetSeq(v_rows'[i-1])], undef |-> [i \in 1..v_h' |-> SetSeq(v_undef'[i-1])]]

-----------------------------------------------------------------------------
(* (b) generation *)
SimInit ==
  /\ \E s \in Shapes :
       /\ v_h = s.h /\ v_w = s.w /\ v_dense = s.hint
       /\ v_rows = [i \in 0..(s.h-1) |-> {}] /\ v_undef = [i \in 0..(s.h-1) |-> {}]
       /\ v_hist = <<[op |-> "new", h |-> s.h, w |-> s.w, hint |-> s.hint]>>
  /\ v_indexed = FALSE /\ v_stale = {} /\ v_phase = "fill" /\ v_left = 0

\* NOTE: every random draw is bound by "\E x \in {Rnd(S)}" - a bound variable is evaluated once, whereas a LET
\* definition would be re-evaluated (and re-drawn) at each use inside an action.
Pick(S) == {Rnd(S)}
MinN(p, q) == IF p < q THEN p ELSE q

\* fill: a few ones per row, as in a constraint matrix (some rows with a single one, some dense-ish)
Fill ==
  /\ v_phase = "fill"
  /\ v_rows' = [i \in Rows |-> RandomSubset(MinN(v_w, Rnd({1, 1, 2, 3, 4, 8})), Cols)]
  /\ Log([op |-> "fill", rows |-> [i \in 1..v_h |-> SetSeq(v_rows'[i-1])]])
  /\ v_phase' = "index" /\ v_left' = IndexedSteps
  /\ UNCHANGED <<v_h, v_w, v_undef, v_dense, v_indexed, v_stale>>

DoIndex ==
  /\ v_phase = "index"
  /\ IF EnabledIndex THEN Index /\ Log([op |-> "index"]) /\ v_phase' = "indexed"
                     ELSE UNCHANGED mvars /\ UNCHANGED v_hist /\ v_phase' = "resize"
  /\ UNCHANGED v_left

StepSwapRows == \E i \in Pick(Rows), j \in Pick(Rows) : SwapRows(i, j) /\ Log([op |-> "swaprows", i |-> i, j |-> j])
AgreePrefix(a, b) == {n \in 0..v_h : \A i \in 0..(n-1) : (a \in v_rows[i]) = (b \in v_rows[i]) /\ a \notin v_undef[i] /\ b \notin v_undef[i]}
StepSwapCols ==
  /\ SparseW >= 1
  /\ \E a \in Pick(0..(SparseW-1)), b \in Pick(0..(SparseW-1)) : \E hint \in Pick(AgreePrefix(a, b)) :
        SwapCols(a, b) /\ Log([op |-> "swapcols", i |-> a, j |-> b, hint |-> hint])
StepColumnQuery ==
  /\ SparseW >= 1
  /\ \E c \in Pick(0..(SparseW-1)), r0 \in Pick(0..v_h) : \E r1 \in Pick(r0..v_h) :
     /\ EnabledColumn(c, r0, r1)
     /\ Log([op |-> "colones", c |-> c, r0 |-> r0, r1 |-> r1, want |-> SetSeq(ColumnOnes(c, r0, r1))])
  /\ UNCHANGED mvars
SingleOneRows == {s \in Rows : Cardinality({c \in v_rows[s] : c < SparseW}) = 1 /\ \A c \in 0..(SparseW-1) : c \notin v_undef[s]}
PivotOf(s) == CHOOSE c \in v_rows[s] : c < SparseW
DestsOf(s) == {d \in Rows \ {s} : PivotOf(s) \in v_rows[d] /\ PivotOf(s) \notin v_undef[d]}
StepAddSingle ==
  /\ SingleOneRows # {}
  /\ \E s \in Pick(SingleOneRows) :
       /\ DestsOf(s) # {}
       /\ \E d \in Pick(DestsOf(s)), start \in Pick({0, SparseW}) :
            AddRows(d, s, start) /\ Log([op |-> "addrows", d |-> d, s |-> s, start |-> start])
StepFreeze == EnabledFreeze(SparseW - 1) /\ Freeze /\ Log([op |-> "freeze", c |-> SparseW - 1])
StepRange ==
  \* half of the queries span from column 0 and/or up to the end of the sparse part (as the solver's do)
  /\ \E i \in Pick(Rows), ka \in Pick(0..1), kb \in Pick(0..1), a0 \in Pick(0..SparseW) : \E b0 \in Pick(a0..SparseW) :
     LET a == IF ka = 0 THEN 0 ELSE a0
         b == IF kb = 0 THEN SparseW ELSE b0 IN
     /\ EnabledRowRange(i, a, b)
     /\ Log([op |-> "range", r |-> i, a |-> a, b |-> b, count |-> CountOnes(i, a, b), ones |-> SetSeq(RowOnes(i, a, b))])
  /\ UNCHANGED mvars
StepTail ==
  /\ \E i \in Pick(Rows) :
     /\ EnabledTail(i)
     /\ Log([op |-> "tail", r |-> i, c |-> SparseW, ones |-> SetSeq(TailOnes(i))])
  /\ UNCHANGED mvars
\* the dense back-end answers tail queries from any start column (no precondition in its implementation): asked of it alone
StepTailDense ==
  /\ \E i \in Pick(Rows), c \in Pick(Cols) :
     /\ RangeDefined(i, c, v_w)
     /\ Log([op |-> "taild", r |-> i, c |-> c, ones |-> SetSeq({x \in v_rows[i] : x >= c})])
  /\ UNCHANGED mvars
StepGet ==
  /\ \E i \in Pick(Rows), j \in Pick(Cols) : EnabledGet(i, j) /\ Log([op |-> "get", i |-> i, j |-> j, want |-> Get(i, j)])
  /\ UNCHANGED mvars
StepSetTail ==
  /\ v_dense >= 1
  /\ \E i \in Pick(Rows), j \in Pick(SparseW..(v_w-1)), v \in Pick({0, 1}) : Set(i, j, v) /\ Log([op |-> "set", i |-> i, j |-> j, v |-> v])

IndexedStep ==
  /\ v_phase \in {"indexed", "indexed2"} /\ v_left > 0
  /\ \/ StepSwapRows \/ StepSwapCols \/ StepColumnQuery \/ StepAddSingle \/ StepAddSingle
     \/ StepFreeze \/ StepFreeze \/ StepFreeze \/ StepRange \/ StepTail \/ StepGet \/ StepSetTail \/ StepTailDense
  /\ v_left' = v_left - 1 /\ UNCHANGED v_phase
EndIndexed ==
  /\ v_phase = "indexed" /\ v_left = 0
  /\ Unindex /\ v_hist' = Append(Append(v_hist, [op |-> "unindex"]), Snapshot)
  /\ v_phase' = "resize" /\ UNCHANGED v_left

DoResize ==
  /\ v_phase = "resize"
  \* half of the resizes keep the width (the solver's A.resize(L, L)), the others drop the dense tail and possibly more
  /\ \E kw \in Pick(0..1), w0 \in Pick({v_w} \cup (IF SparseW >= 1 THEN 1..SparseW ELSE {})) :
     \E w2 \in {IF kw = 0 THEN v_w ELSE w0} : \E h2 \in Pick(w2..v_h) :
        /\ EnabledResize(h2, w2)
        /\ Resize(h2, w2)
        /\ v_hist' = Append(Append(v_hist, [op |-> "resize", h |-> h2, w |-> w2]), Snapshot)
  /\ v_phase' = "free" /\ v_left' = FreeSteps

StepAddFree ==
  /\ v_h >= 2
  /\ \E d \in Pick(Rows) : \E s \in Pick(Rows \ {d}), start \in Pick({0, SparseW}) :
     AddRows(d, s, start) /\ Log([op |-> "addrows", d |-> d, s |-> s, start |-> start])
StepSetAny == \E i \in Pick(Rows), j \in Pick(Cols), v \in Pick({0, 1}) : Set(i, j, v) /\ Log([op |-> "set", i |-> i, j |-> j, v |-> v])
FreeStep ==
  /\ v_phase = "free" /\ v_left > 0
  /\ \/ StepAddFree \/ StepAddFree \/ StepSetAny \/ StepGet \/ StepTail \/ StepSwapRows \/ StepTailDense \/ StepTailDense
  /\ v_left' = v_left - 1 /\ UNCHANGED v_phase
\* after the un-indexed phase the column index may be switched on again (the interface allows it at any time): a second,
\* shorter indexed phase on the resized matrix, then a final snapshot
EndFree ==
  /\ v_phase = "free" /\ v_left = 0
  \* (only when no columns were dropped: indexing again after a width-shrinking resize is outside the contract, DESIGN Appendix C)
  /\ IF EnabledIndex /\ v_w = v_hist[1].w
     THEN Index /\ v_hist' = Append(Append(v_hist, Snapshot), [op |-> "index"]) /\ v_phase' = "indexed2" /\ v_left' = 60
     ELSE UNCHANGED mvars /\ Log(Snapshot) /\ v_phase' = "done" /\ UNCHANGED v_left
EndIndexed2 ==
  /\ v_phase = "indexed2" /\ v_left = 0
  /\ Unindex /\ v_hist' = Append(Append(v_hist, [op |-> "unindex"]), Snapshot)
  /\ v_phase' = "done" /\ UNCHANGED v_left

SimNext == Fill \/ DoIndex \/ IndexedStep \/ EndIndexed \/ DoResize \/ FreeStep \/ EndFree \/ EndIndexed2
SimSpec == SimInit /\ [][SimNext]_vars
Emit == v_phase = "done" => PrintT(ToJson([ops |-> v_hist]))

-----------------------------------------------------------------------------
(* (a) exhaustive on tiny shapes: all operations, all arguments *)
Init ==
  /\ \E s \in Shapes : /\ v_h = s.h /\ v_w = s.w /\ v_dense = s.hint
                       /\ v_rows \in [0..(s.h-1) -> SUBSET (0..(s.w-1))] /\ v_undef = [i \in 0..(s.h-1) |-> {}]
  /\ v_indexed = FALSE /\ v_stale = {} /\ v_phase = "x" /\ v_hist = <<>> /\ v_left = 0
Next ==
  /\ UNCHANGED <<v_hist, v_left>>
  /\ \/ \E i \in Rows, j \in Rows : SwapRows(i, j) /\ v_phase' = "swaprows"
     \/ \E a \in Cols, b \in Cols : EnabledSwapCols(a, b, 0) /\ SwapCols(a, b) /\ v_phase' = "swapcols"
     \/ EnabledIndex /\ Index /\ v_phase' = "index"
     \/ v_indexed /\ Unindex /\ v_phase' = "unindex"
     \/ EnabledFreeze(SparseW - 1) /\ Freeze /\ v_phase' = "freeze"
     \/ \E d \in Rows, s \in Rows, st \in {0, SparseW} : EnabledAddRows(d, s, st) /\ AddRows(d, s, st)
                                                       /\ v_phase' = (IF st = 0 THEN "addfull" ELSE "addpartial")
     \/ \E i \in Rows, j \in Cols, v \in {0, 1} : EnabledSet(i, j) /\ Set(i, j, v) /\ v_phase' = "set"
     \/ \E h2 \in 1..v_h, w2 \in 1..v_w : EnabledResize(h2, w2) /\ Resize(h2, w2) /\ v_phase' = "resize"
Spec == Init /\ [][Next]_vars
\* GF(2) row space of the rows, as a set of column sets
RowSpace(rows, n) ==
  LET RECURSIVE span(_, _)
      span(k, acc) == IF k = n THEN acc ELSE span(k + 1, acc \cup {SymDiff(x, rows[k]) : x \in acc})
  IN span(0, {{}})
AllDefined(u, n) == \A i \in 0..(n-1) : u[i] = {}
\* full row additions, row swaps, freezes and (un)indexing leave the row space of a fully defined matrix unchanged -
\* the fact the solver relies on; a column swap permutes it
RowSpacePreserved ==
  [][v_phase' \in {"addfull", "swaprows", "freeze", "index", "unindex"} /\ AllDefined(v_undef, v_h) /\ AllDefined(v_undef', v_h')
     => RowSpace(v_rows', v_h') = RowSpace(v_rows, v_h)]_vars
\* a freeze never changes a cell; a partial row addition changes no defined cell left of its start column
FreezeKeepsCells == [][v_phase' = "freeze" => v_rows' = v_rows /\ v_undef' = v_undef]_vars
=============================================================================
