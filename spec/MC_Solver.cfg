SPECIFICATION Spec
CONSTANTS NR = 4  NC = 3
INVARIANTS Figure6 RankInvariant SolvedIffDetermined
CHECK_DEADLOCK FALSE
