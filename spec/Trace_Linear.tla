---------------------------- MODULE Trace_Linear ----------------------------
(* C09 - the code is GF(256)-linear and acts independently on every byte column.
   The specification's Enc is, by construction (Rfc6330: a fixed GF(256)-linear solve followed by xor of selected
   intermediate symbols, applied per octet position), a linear map on each byte column; the ASSUME below lets TLC
   confirm it on the spec for a small block.  The trace must show the same of the implementation: for every logged
   (K, T), every ESI and every byte position j
        P(A xor B)[j] = P(A)[j] xor P(B)[j],   P(c*A)[j] = c * P(A)[j]  (field product of GF256),
        P_T(A)[j] = the one-byte packet obtained by encoding byte column j of A alone. *)
EXTENDS Rfc6330, TLC, Json, IOUtils
Rec == ndJsonDeserialize(IOEnv.TRACE)
VARIABLES v_pos, v_seen
vars == <<v_pos, v_seen>>
Chk(c, m) == IF c THEN TRUE ELSE PrintT(<<"MISMATCH", m>>) /\ FALSE

ASSUME SpecIsLinear ==
  LET K == 3  pr == Params(K)
      A == <<17, 201, 94>>  B == <<250, 3, 77>>  c == 29
      CA == SolveC(K, A)  CB == SolveC(K, B)
      CAB == SolveC(K, [i \in 1..K |-> A[i] ^^ B[i]])  CcA == SolveC(K, [i \in 1..K |-> Mul(c, A[i])])
  IN /\ \A i \in 1..pr.L : CAB[i] = CA[i] ^^ CB[i] /\ CcA[i] = Mul(c, CA[i])
     /\ \A X \in {0, 5, 12, 1000, 16777222} : EncSym(pr, CAB, X) = EncSym(pr, CA, X) ^^ EncSym(pr, CB, X)

\* For large T the event carries a projection: "pos" lists the byte positions (0-based) that were kept, and every
\* packet / column array is restricted to them (the relations are position-wise, so a projection is checked exactly
\* like a whole symbol); without "pos" all T positions are present.
NPos(e) == IF "pos" \in DOMAIN e THEN Len(e.pos) ELSE e.t
PosOf(e, j) == IF "pos" \in DOMAIN e THEN e.pos[j] ELSE j - 1
LinOk(e) ==
  /\ Chk(e.res = "ok", <<"encoder failed", e.k, e.t, e.res>>) /\ e.res = "ok"
  /\ Len(e.pa) = Len(e.esis) /\ Len(e.pb) = Len(e.esis) /\ Len(e.pab) = Len(e.esis) /\ Len(e.pca) = Len(e.esis)
  /\ Len(e.cols) = NPos(e)
  /\ ("pos" \in DOMAIN e => \A j \in 1..Len(e.pos) : e.pos[j] < e.t)
  /\ \A i \in 1..Len(e.esis) :
       /\ Len(e.pa[i]) = NPos(e)
       /\ \A j \in 1..NPos(e) :
            /\ Chk(e.pab[i][j] = e.pa[i][j] ^^ e.pb[i][j],
                   <<"not additive", "K", e.k, "T", e.t, "route", e.route, "esi", e.esis[i], "byte", PosOf(e, j)>>)
            /\ Chk(e.pca[i][j] = Mul(e.c, e.pa[i][j]),
                   <<"not homogeneous", "K", e.k, "T", e.t, "route", e.route, "esi", e.esis[i], "byte", PosOf(e, j), "c", e.c>>)
            /\ Chk(e.pa[i][j] = e.cols[j][i],
                   <<"byte column not independent", "K", e.k, "T", e.t, "route", e.route, "esi", e.esis[i], "byte", PosOf(e, j),
                     "got", e.pa[i][j], "column alone", e.cols[j][i]>>)

Init == v_pos = 1 /\ v_seen = {}
Step == /\ v_pos <= Len(Rec)
        /\ LET e == Rec[v_pos] IN
           \/ e.ev \in {"meta", "end"} /\ UNCHANGED v_seen
           \/ e.ev = "lin" /\ LinOk(e) = TRUE /\ v_seen' = v_seen \cup {e.t}
        /\ v_pos' = v_pos + 1
Spec == Init /\ [][Step]_vars
Accepted == LET d == TLCGet("stats").diameter IN
            IF d - 1 = Len(Rec) /\ Rec[Len(Rec)].ev = "end" THEN TRUE ELSE PrintT(<<"REJECTED", d>>) /\ FALSE
=============================================================================
