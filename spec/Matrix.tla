---------------------------- MODULE Matrix ----------------------------
(***************************************************************************)
(* The abstract binary matrix behind the BinaryMatrix interface (property  *)
(* C16): a plain h x w bit array plus the bookkeeping the interface's      *)
(* preconditions talk about - how many trailing columns are "dense and     *)
(* frozen", whether column indexing is on, which indexed columns are stale *)
(* (pivot column of an earlier indexed row addition) and which cells a     *)
(* partial row addition has left undefined.  One operator per interface    *)
(* method; Enabled* states the precondition as read from the interface     *)
(* comments, the assertions of both implementations and the solver's use   *)
(* (DESIGN.md Appendix C); queries return the answer on defined cells.     *)
(*                                                                         *)
(* Representation: v_rows[i] = set of columns holding a 1 in row i,        *)
(* v_undef[i] = set of undefined columns of row i (rows, columns 0-based). *)
(***************************************************************************)
EXTENDS Naturals, FiniteSets, Sequences

VARIABLES v_h, v_w, v_rows, v_undef, v_dense, v_indexed, v_stale
mvars == <<v_h, v_w, v_rows, v_undef, v_dense, v_indexed, v_stale>>

Rows == 0..(v_h - 1)
Cols == 0..(v_w - 1)
SparseW == v_w - v_dense                       \* number of columns left of the dense tail
SymDiff(A, B) == (A \ B) \cup (B \ A)
SwapIn(S, a, b) == {IF c = a THEN b ELSE IF c = b THEN a ELSE c : c \in S}

New(h, w, hint) ==
  /\ v_h' = h /\ v_w' = w /\ v_dense' = hint
  /\ v_rows' = [i \in 0..(h-1) |-> {}] /\ v_undef' = [i \in 0..(h-1) |-> {}]
  /\ v_indexed' = FALSE /\ v_stale' = {}

\* set(i, j, v): only in the dense tail once the column index exists
EnabledSet(i, j) == i \in Rows /\ j \in Cols /\ (~v_indexed \/ j >= SparseW)
Set(i, j, v) ==
  /\ v_rows' = [v_rows EXCEPT ![i] = IF v = 1 THEN @ \cup {j} ELSE @ \ {j}]
  /\ v_undef' = [v_undef EXCEPT ![i] = @ \ {j}]
  /\ UNCHANGED <<v_h, v_w, v_dense, v_indexed, v_stale>>

\* queries (answers); each is only asked on defined cells
Get(i, j) == IF j \in v_rows[i] THEN 1 ELSE 0
EnabledGet(i, j) == i \in Rows /\ j \in Cols /\ j \notin v_undef[i]
RangeDefined(i, a, b) == \A c \in a..(b-1) : c \notin v_undef[i]
\* count_ones / get_row_iter: only on the sparse part
\* (b < v_w: a range ending at the full width is outside the contract - the dense back-end's row iterator then reads one word
\* past the last row when the width is a multiple of 64; with a dense tail of at least one column b <= SparseW implies it)
EnabledRowRange(i, a, b) == i \in Rows /\ a <= b /\ b <= SparseW /\ b < v_w /\ RangeDefined(i, a, b)
CountOnes(i, a, b) == Cardinality({c \in v_rows[i] : a <= c /\ c < b})
RowOnes(i, a, b) == {c \in v_rows[i] : a <= c /\ c < b}
\* get_ones_in_column: indexed, sparse part, column not stale, defined
EnabledColumn(c, r0, r1) == v_indexed /\ c < SparseW /\ c \notin v_stale /\ r0 <= r1 /\ r1 <= v_h
                            /\ \A i \in r0..(r1-1) : c \notin v_undef[i]
ColumnOnes(c, r0, r1) == {i \in r0..(r1-1) : c \in v_rows[i]}
\* get_sub_row_as_octets / query_non_zero_columns: exactly the dense tail (at least one column)
EnabledTail(i) == i \in Rows /\ v_dense >= 1 /\ RangeDefined(i, SparseW, v_w)
TailOnes(i) == {c \in v_rows[i] : c >= SparseW}

SwapRows(i, j) ==
  /\ v_rows' = [v_rows EXCEPT ![i] = v_rows[j], ![j] = v_rows[i]]
  /\ v_undef' = [v_undef EXCEPT ![i] = v_undef[j], ![j] = v_undef[i]]
  /\ UNCHANGED <<v_h, v_w, v_dense, v_indexed, v_stale>>

\* swap_columns(i, j, hint): sparse part only; rows below `hint` are promised to agree on the two columns
EnabledSwapCols(a, b, hint) ==
  /\ a < SparseW /\ b < SparseW /\ hint <= v_h
  /\ \A i \in 0..(hint-1) : (a \in v_rows[i]) = (b \in v_rows[i]) /\ a \notin v_undef[i] /\ b \notin v_undef[i]
SwapCols(a, b) ==
  /\ v_rows' = [i \in Rows |-> SwapIn(v_rows[i], a, b)]
  /\ v_undef' = [i \in Rows |-> SwapIn(v_undef[i], a, b)]
  /\ v_stale' = SwapIn(v_stale, a, b)
  /\ UNCHANGED <<v_h, v_w, v_dense, v_indexed>>

\* enable / disable column access acceleration
EnabledIndex == ~v_indexed /\ \E i \in Rows : \E c \in v_rows[i] : c < SparseW
Index == v_indexed' = TRUE /\ v_stale' = {} /\ UNCHANGED <<v_h, v_w, v_rows, v_undef, v_dense>>
Unindex == v_indexed' = FALSE /\ v_stale' = {} /\ UNCHANGED <<v_h, v_w, v_rows, v_undef, v_dense>>

\* hint_column_dense_and_frozen(c): the last sparse column joins the tail; the matrix is unchanged
\* (v_dense >= 1: see DESIGN Appendix C - the first freeze of a matrix created with hint 0 is outside the contract)
EnabledFreeze(c) == v_indexed /\ c = SparseW - 1 /\ SparseW >= 1 /\ v_dense >= 1
Freeze == v_dense' = v_dense + 1 /\ UNCHANGED <<v_h, v_w, v_rows, v_undef, v_indexed, v_stale>>

\* add_assign_rows(dest, src, start): start is 0 or the first dense column.  With the column index on and start = 0
\* the source row has exactly one 1 in the sparse part, at a column where dest has a 1.
EnabledAddRows(d, s, start) ==
  /\ d \in Rows /\ s \in Rows /\ d # s /\ start \in {0, SparseW}
  /\ (v_indexed /\ start = 0 =>
        /\ \A c \in 0..(SparseW-1) : c \notin v_undef[s]
        /\ Cardinality({c \in v_rows[s] : c < SparseW}) = 1
        /\ \A c \in v_rows[s] : c < SparseW => c \in v_rows[d] /\ c \notin v_undef[d])
AddRows(d, s, start) ==
  /\ v_rows' = [v_rows EXCEPT ![d] = {c \in v_rows[d] : c < start} \cup {c \in SymDiff(v_rows[d], v_rows[s]) : c >= start}]
  \* left of start the destination becomes undefined; undefined source cells make the destination cell undefined
  /\ v_undef' = [v_undef EXCEPT ![d] = (0..(start-1)) \cup {c \in v_undef[d] \cup v_undef[s] : c >= start}]
  /\ v_stale' = IF v_indexed /\ start = 0 THEN v_stale \cup {c \in v_rows[s] : c < SparseW} ELSE v_stale
  /\ UNCHANGED <<v_h, v_w, v_dense, v_indexed>>

\* resize(h', w'): un-indexed; same width, or the whole tail (and possibly more) dropped
EnabledResize(h2, w2) == ~v_indexed /\ 1 <= h2 /\ h2 <= v_h /\ (w2 = v_w \/ (1 <= w2 /\ w2 <= SparseW)) /\ w2 <= h2
Resize(h2, w2) ==
  /\ v_h' = h2 /\ v_w' = w2
  /\ v_rows' = [i \in 0..(h2-1) |-> {c \in v_rows[i] : c < w2}]
  /\ v_undef' = [i \in 0..(h2-1) |-> {c \in v_undef[i] : c < w2}]
  /\ v_dense' = IF w2 = v_w THEN v_dense ELSE 0
  /\ UNCHANGED <<v_indexed, v_stale>>

\* well-formedness of the bookkeeping
TypeOK == /\ v_dense <= v_w /\ v_w <= v_h
          /\ \A i \in Rows : v_rows[i] \subseteq Cols /\ v_undef[i] \subseteq Cols
          /\ v_stale \subseteq 0..(v_w - 1)
=============================================================================
