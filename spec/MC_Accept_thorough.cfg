SPECIFICATION Spec
CONSTANTS
  Ts = {1, 2, 3, 4, 5, 7, 8, 16, 64, 255, 256, 257, 1024, 1500, 4096, 32768, 65528, 65534, 65535}
  Zs = {1, 2, 3, 4, 7, 8, 16, 100, 128, 253, 254, 255}
  Als = {1, 2, 3, 4, 5, 8, 16, 64, 255}
  Ns = {1, 2, 7, 65535}
INVARIANTS AcceptEquivProduct Emit
CHECK_DEADLOCK FALSE
