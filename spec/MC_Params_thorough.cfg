SPECIFICATION Spec
CONSTANTS ScanRows = {1, 2, 9, 23, 46, 120, 300, 477}
  ScanChunks = 200
  ScanChunkSize = 5000
  DeepRows = {2, 9, 40, 477}  DeepChunks = 3200
INVARIANTS ParamsConsistent TablesWellFormed TuplesInRange WrapSolved EdgeInRange Emit
CHECK_DEADLOCK FALSE
