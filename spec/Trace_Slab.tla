---------------------------- MODULE Trace_Slab ----------------------------
(* C12 (c): the slab's paired borrow.  Every observed get_pair_mut - <<data length, symbol count, symbol size, dest
   offset, src offset>> - must describe two distinct, aligned, in-bounds, non-overlapping symbol ranges. *)
EXTENDS Naturals, Sequences, TLC, Json, IOUtils
Rec == ndJsonDeserialize(IOEnv.TRACE)
VARIABLES v_pos, v_pairs
vars == <<v_pos, v_pairs>>
Chk(c, m) == IF c THEN TRUE ELSE PrintT(<<"MISMATCH", m>>) /\ FALSE
PairDisjoint(p) ==
  LET dl == p[1] cnt == p[2] ss == p[3] d == p[4] s == p[5] IN
  /\ dl = cnt * ss
  /\ d # s
  /\ d % ss = 0 /\ s % ss = 0
  /\ d + ss <= dl /\ s + ss <= dl
  /\ (d + ss <= s \/ s + ss <= d)
PairsOk(e) == \A i \in 1..Len(e.pairs) : Chk(PairDisjoint(e.pairs[i]), <<"paired borrow overlaps or leaves the slab", e.pairs[i]>>)
Init == v_pos = 1 /\ v_pairs = 0
Step == /\ v_pos <= Len(Rec)
        /\ LET e == Rec[v_pos] IN
           \/ e.ev \in {"meta", "end"} /\ UNCHANGED v_pairs
           \/ e.ev = "pairs" /\ PairsOk(e) = TRUE /\ v_pairs' = v_pairs + Len(e.pairs)
        /\ v_pos' = v_pos + 1
Spec == Init /\ [][Step]_vars
Accepted == LET d == TLCGet("stats").diameter IN
            IF d - 1 = Len(Rec) /\ Rec[Len(Rec)].ev = "end" THEN TRUE ELSE PrintT(<<"REJECTED", d>>) /\ FALSE
=============================================================================
