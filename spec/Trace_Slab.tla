---------------------------- MODULE Trace_Slab ----------------------------
(* C12 (c): the slab's paired borrow.  Every observed get_pair_mut - <<data length, symbol count, symbol size, dest
   offset, src offset>> - must describe two distinct, aligned, in-bounds, non-overlapping symbol ranges. *)
EXTENDS Naturals, Sequences, TLC, Json, IOUtils
Rec == ndJsonDeserialize(IOEnv.TRACE)
VARIABLES v_pos, v_pairs
vars == <<v_pos, v_pairs>>
Chk(c, m) == IF c THEN TRUE ELSE PrintT(<<"MISMATCH", m>>) /\ FALSE
\* what the property demands of a paired borrow <<data length, symbol count, symbol size, dest offset, src offset>>: two
\* different, in-bounds, non-overlapping ranges of one symbol each (nothing about alignment or about the storage being
\* exactly count * size octets: a slab may pad its symbols)
PairDisjoint(p) ==
  LET dl == p[1] cnt == p[2] ss == p[3] d == p[4] s == p[5] IN
  /\ dl >= cnt * ss
  /\ d # s
  /\ d + ss <= dl /\ s + ss <= dl
  /\ (d + ss <= s \/ s + ss <= d)
PairsOk(e) == \A i \in 1..Len(e.pairs) : Chk(PairDisjoint(e.pairs[i]), <<"paired borrow overlaps or leaves the slab", e.pairs[i]>>)
\* Direct requests (every index pair of a small slab, equal and out-of-range indices included, with a reorder in force or
\* not): the borrow is granted exactly when the two indices are in range and different - then the two returned slices are
\* two whole, distinct, in-bounds, non-overlapping symbols (WHICH physical symbols is the slab's business: a reorder may
\* be a mapping or a physical permutation) - and refused (panic, nothing handed out) otherwise.
SlicesOk(e, c) ==
  LET d == c.ret[1] dl == c.ret[2] s == c.ret[3] sl == c.ret[4]
      \* the storage length the slab itself reported for this call (hook), else the minimum a slab of that shape has
      total == IF Len(c.hook) > 0 THEN c.hook[1][1] ELSE e.count * e.ss IN
  /\ dl = e.ss /\ sl = e.ss
  /\ d >= 0 /\ s >= 0
  /\ (Len(c.hook) > 0 => d + e.ss <= total /\ s + e.ss <= total)
  /\ (d + e.ss <= s \/ s + e.ss <= d)
DirectOk(e) ==
  \A i \in 1..Len(e.calls) :
    LET c == e.calls[i]
        admissible == c.dest < e.count /\ c.src < e.count /\ c.dest # c.src
        ctx == <<"count", e.count, "ss", e.ss, "mapping", e.mapping, "dest", c.dest, "src", c.src, c.res, c.ret>>
    IN IF admissible
       THEN Chk(c.res = "ok" /\ SlicesOk(e, c) /\ \A k \in 1..Len(c.hook) : PairDisjoint(c.hook[k]),
                <<"admissible paired borrow refused, overlapping or outside the slab", ctx>>)
       ELSE Chk(c.res = "panic", <<"paired borrow granted for equal or out-of-range indices", ctx>>)
\* binary matrices: a row index beyond the current height (the storage may still hold rows cut off by a resize) is refused,
\* in-range controls are served
MatDirectOk(e) ==
  \A i \in 1..Len(e.calls) :
    LET c == e.calls[i] IN
    IF c.inrange THEN Chk(c.res = "ok", <<"an in-range matrix call was refused", e.matrix, c.op>>)
                 ELSE Chk(c.res = "panic", <<"a matrix call with a row beyond the height was served (it can only touch memory outside the matrix)", e.matrix, c.op>>)
Init == v_pos = 1 /\ v_pairs = 0
Step == /\ v_pos <= Len(Rec)
        /\ LET e == Rec[v_pos] IN
           \/ e.ev \in {"meta", "end"} /\ UNCHANGED v_pairs
           \/ e.ev = "pairs" /\ PairsOk(e) = TRUE /\ v_pairs' = v_pairs + Len(e.pairs)
           \/ e.ev = "direct" /\ DirectOk(e) = TRUE /\ v_pairs' = v_pairs + Len(e.calls)
           \/ e.ev = "matdirect" /\ MatDirectOk(e) = TRUE /\ v_pairs' = v_pairs + Len(e.calls)
        /\ v_pos' = v_pos + 1
Spec == Init /\ [][Step]_vars
Accepted == LET d == TLCGet("stats").diameter IN
            IF d - 1 = Len(Rec) /\ Rec[Len(Rec)].ev = "end" THEN TRUE ELSE PrintT(<<"REJECTED", d>>) /\ FALSE
=============================================================================
