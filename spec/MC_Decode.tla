---------------------------- MODULE MC_Decode ----------------------------
(* The step the abstract decoder (Codec.tla) takes for granted, checked on the specification's own arithmetic:
   for a block of K source octets, its RFC 6330 encoding symbols (intermediate symbols by SolveC, then Enc) and every
   subset S of a small packet universe,
      - if the constraint matrix of S has full rank, Gauss-Jordan elimination of  A(S) x C = D(S)  with the received
        octets as right-hand side returns intermediate symbols whose first K encoding symbols are the source octets
        ("what is decoded is the original"), and
      - if it has not, the elimination finds no unique solution ("not yet").
   So "Decodable => the answer is the object" in Codec.tla is a theorem of Rfc6330.tla, not an assumption, for these
   universes; the same universes as MC_Codec plus a three-symbol block.  Constant-level: TLC evaluates the ASSUMEs once. *)
EXTENDS Rfc6330, TLC
CONSTANT Cases
CasesQuick == << [k |-> 2, data |-> <<7, 200>>, univ |-> {0, 1, 2, 18, 16777215}],
                 [k |-> 1, data |-> <<93>>,     univ |-> {0, 2, 133, 500}] >>
CasesThorough == CasesQuick \o << [k |-> 2, data |-> <<0, 255>>, univ |-> {0, 1, 2, 13, 18, 21, 16777215}],
                                   [k |-> 3, data |-> <<1, 0, 142>>, univ |-> {0, 1, 2, 3, 4, 7, 1000, 65536}] >>
IsisOf(K, pr, S) == SetToSeq({e \in S : e < K} \cup (K..(pr.Kp - 1)) \cup {e + pr.Kp - K : e \in S \ (0..(K-1))})

\* the received system: pre-code rows (right-hand side 0), then one LT row per received or padding ISI
DecodeFrom(K, S, payload) ==
  LET pr == Params(K)
      isis == IsisOf(K, pr, S)
      n == pr.S + pr.H + Len(isis)
      A == AMatrix(pr, isis)
      Rhs(r) == IF r <= pr.S + pr.H THEN 0
                ELSE LET isi == isis[r - pr.S - pr.H] IN
                     IF isi < K THEN payload[isi] ELSE IF isi < pr.Kp THEN 0 ELSE payload[isi - pr.Kp + K]
      M == TLCEval([r \in 1..n |-> TLCEval([c \in 1..(pr.L + 1) |-> IF c <= pr.L THEN A[r][c] ELSE Rhs(r)])])
      Cx == IF n < pr.L THEN <<>> ELSE GJ(M, n, pr.L, 1)
  IN IF Cx = <<>> THEN <<>> ELSE [i \in 1..K |-> EncSym(pr, Cx, i - 1)]

CaseOk(cs) ==
  LET pr == Params(cs.k)
      C0 == SolveC(cs.k, cs.data)
      pre == PreRows(pr)
  IN /\ C0 # <<>>
     /\ \A S \in SUBSET cs.univ :
          LET payload == [e \in S |-> PacketOctet(cs.k, C0, e)]
              full == Cardinality(S) >= cs.k /\ FullRank(pre, pr, IsisOf(cs.k, pr, S))
              got == DecodeFrom(cs.k, S, payload)
          IN IF full THEN got = cs.data ELSE got = <<>>
ASSUME DecodeTheorem == \A i \in 1..Len(Cases) : CaseOk(Cases[i])
\* the system is consistent even when over-determined: a full-rank set stays solvable after adding any further packet
\* (covered by the quantification over all subsets above)
VARIABLE v
Spec == v = 0 /\ [][UNCHANGED v]_v
=============================================================================
