---------------------------- MODULE Nat32 ----------------------------
(* Unsigned 32-bit quantities on four byte limbs (little-endian), because TLC integers are 32-bit signed.
   Used for the RFC 6330 quantities that do not fit: y = (B + X*A) mod 2^32 and the V0..V3 entries. *)
EXTENDS Naturals, Sequences

Limbs4(n) == <<n % 256, (n \div 256) % 256, (n \div 65536) % 256, (n \div 16777216) % 256>>   \* n < 2^31
L4Lo24(w) == w[1] + 256 * w[2] + 65536 * w[3]                                                   \* low 24 bits
L4Fits31(w) == w[4] < 128
L4ToInt(w) == w[1] + 256 * w[2] + 65536 * w[3] + 16777216 * w[4]                                \* only if L4Fits31

\* (xw * s + bw) mod 2^32 for a small scalar s < 2^22
MulAdd32(xw, s, bw) ==
  LET p0 == xw[1]*s + bw[1]
      p1 == xw[2]*s + bw[2] + (p0 \div 256)
      p2 == xw[3]*s + bw[3] + (p1 \div 256)
      p3 == xw[4]*s + bw[4] + (p2 \div 256)
  IN <<p0 % 256, p1 % 256, p2 % 256, p3 % 256>>

\* (pw * qw) mod 2^32
Mul32(pw, qw) ==
  LET c0 == pw[1]*qw[1]
      c1 == pw[1]*qw[2] + pw[2]*qw[1] + (c0 \div 256)
      c2 == pw[1]*qw[3] + pw[2]*qw[2] + pw[3]*qw[1] + (c1 \div 256)
      c3 == pw[1]*qw[4] + pw[2]*qw[3] + pw[3]*qw[2] + pw[4]*qw[1] + (c2 \div 256)
  IN <<c0 % 256, c1 % 256, c2 % 256, c3 % 256>>

\* (pw - qw) mod 2^32
Sub32(pw, qw) ==
  LET d0 == pw[1] + 256 - qw[1]
      b0 == IF d0 < 256 THEN 1 ELSE 0
      d1 == pw[2] + 256 - qw[2] - b0
      b1 == IF d1 < 256 THEN 1 ELSE 0
      d2 == pw[3] + 256 - qw[3] - b1
      b2 == IF d2 < 256 THEN 1 ELSE 0
      d3 == pw[4] + 256 - qw[4] - b2
  IN <<d0 % 256, d1 % 256, d2 % 256, d3 % 256>>

Two32 == <<2, 0, 0, 0>>
\* inverse of an odd number modulo 2^32 by Newton iteration x <- x*(2 - a*x); x0 = a is correct to 3 bits
Inv32(aw) ==
  LET n1 == Mul32(aw, Sub32(Two32, Mul32(aw, aw)))
      n2 == Mul32(n1, Sub32(Two32, Mul32(aw, n1)))
      n3 == Mul32(n2, Sub32(Two32, Mul32(aw, n2)))
      n4 == Mul32(n3, Sub32(Two32, Mul32(aw, n3)))
      n5 == Mul32(n4, Sub32(Two32, Mul32(aw, n4)))
  IN n5
=============================================================================
