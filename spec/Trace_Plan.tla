---------------------------- MODULE Trace_Plan ----------------------------
(* impl -> spec: recorded operation vectors of the real solver (encoding plans for a block size, and the operations
   of individual decodes for a received set) are replayed as behaviours of Elim.tla on the specification's own
   constraint matrix A(K, ISIs) - one trace step per recorded operation - and must end in Solved.  This certifies a
   plan for every data content and every symbol size at once (C06), ties the solver to the RFC matrix (C02/C04), and
   checks that both matrix back-ends and the GF(2)-only route produce valid eliminations. *)
EXTENDS Elim, Rfc6330, TLC, Json, IOUtils
Rec == ndJsonDeserialize(IOEnv.TRACE)
VARIABLES v_pos, v_op, v_plans
vars == <<v_pos, v_op, v_plans, v_mat>>
Chk(c, m) == IF c THEN TRUE ELSE PrintT(<<"MISMATCH", m>>) /\ FALSE

\* the system the solver was given: S LDPC rows, H HDPC rows (absent on the GF(2)-only route), one LT row per ISI
SystemOf(e) ==
  LET pr == Params(e.k)
      pre == PreRows(pr)
      rows == IF e.hdpc THEN pre ELSE SubSeq(pre, 1, pr.S)
  IN TLCEval(rows \o [i \in 1..Len(e.isis) |-> LtRow(pr, e.isis[i])])

Init == v_pos = 1 /\ v_op = 0 /\ v_plans = 0 /\ v_mat = <<>>
\* a "plan" event loads the system; then one step per operation; after the last operation the system must be solved
\* long operation vectors (large K') are applied inside the loading step - the same operations, no intermediate states
FoldLimit == 6000
ApplyF(M, op) ==
  LET d == op[2] + 1  s == op[3] + 1 IN
  [M EXCEPT ![d] = TLCEval([c \in DOMAIN M[d] |->
                      CASE op[1] = 1 -> M[d][c] ^^ M[s][c]
                        [] op[1] = 2 -> Mul(op[4], M[d][c])
                        [] op[1] = 3 -> M[d][c] ^^ Mul(op[4], M[s][c])])]
Load(e) == /\ Chk(e.res = "ok", <<"solver failed on a system it must solve", e.k, e.route, e.res>>) = TRUE
           /\ IF Len(e.ops) <= FoldLimit
              THEN v_mat' = SystemOf(e) /\ v_op' = 1
              ELSE /\ Chk(\A i \in 1..Len(e.ops) : OpOk(e.ops[i], Params(e.k).S + (IF e.hdpc THEN Params(e.k).H ELSE 0) + Len(e.isis)),
                          <<"inadmissible operation", "K", e.k, e.route>>) = TRUE
                   /\ v_mat' = FoldLeft(ApplyF, SystemOf(e), e.ops) /\ v_op' = Len(e.ops) + 1
           /\ v_plans' = v_plans /\ UNCHANGED v_pos
OpStep(e) ==
  /\ v_op >= 1 /\ v_op <= Len(e.ops)
  /\ Chk(OpOk(e.ops[v_op], Len(v_mat)), <<"inadmissible operation", "K", e.k, e.route, "index", v_op, e.ops[v_op]>>) = TRUE
  /\ Apply(e.ops[v_op])
  /\ v_op' = v_op + 1 /\ UNCHANGED <<v_pos, v_plans>>
Finish(e) ==
  /\ v_op = Len(e.ops) + 1
  /\ Chk(Solved(e.order, Params(e.k).L),
         <<"the recorded operations do not reduce the RFC constraint matrix to the identity under the reorder mapping",
           "K", e.k, "route", e.route, "ops", Len(e.ops)>>) = TRUE
  /\ v_op' = 0 /\ v_plans' = v_plans + 1 /\ v_pos' = v_pos + 1 /\ v_mat' = <<>>
Step ==
  /\ v_pos <= Len(Rec)
  /\ LET e == Rec[v_pos] IN
     \/ e.ev \in {"meta", "end"} /\ v_pos' = v_pos + 1 /\ UNCHANGED <<v_op, v_plans, v_mat>>
     \/ e.ev = "plan" /\ v_op = 0 /\ Load(e)
     \/ e.ev = "plan" /\ OpStep(e)
     \/ e.ev = "plan" /\ Finish(e)
Spec == Init /\ [][Step]_vars
\* this trace spec takes several steps per event, so acceptance is "the search depth equals the number of steps the
\* trace demands" (1 per meta/end event, 2 + number of operations per plan event); on rejection the number of fully
\* consumed events is reconstructed from the depth reached
StepsOf(e) == IF e.ev = "plan" THEN (IF Len(e.ops) <= FoldLimit THEN Len(e.ops) + 2 ELSE 2) ELSE 1
RECURSIVE StepsUpTo(_)
StepsUpTo(n) == IF n = 0 THEN 0 ELSE StepsUpTo(n - 1) + StepsOf(Rec[n])
RECURSIVE EventAt(_, _)
EventAt(depth, n) == IF n > Len(Rec) \/ StepsUpTo(n) >= depth THEN n ELSE EventAt(depth, n + 1)
Accepted == LET d == TLCGet("stats").diameter IN
            IF d - 1 = StepsUpTo(Len(Rec)) /\ Rec[Len(Rec)].ev = "end" THEN TRUE
            ELSE PrintT(<<"REJECTED", EventAt(d, 1)>>) /\ FALSE
=============================================================================
