---------------------------- MODULE MC_Derive ----------------------------
(* C14, spec -> impl: TLC enumerates (F, P', WS) and *computes* the inputs that sit on the decision boundaries of
   RFC 6330 4.3: memory budgets exactly at / one below K'*Al*ceil(T/(Al*n)), budgets whose quotient exceeds
   32 bits, transfer lengths that exactly fill Z blocks of KL symbols +-1 byte.  Each case carries the derived
   (T, Z, N, Al); invariants state the RFC's optimality conditions and monotonicity in the memory budget. *)
EXTENDS Rfc6330Obj, TLC, Json, Integers
CONSTANTS Ps, KpSel, Mults
VARIABLE v_case
vars == <<v_case>>

NmaxOf(Pp) == DeriveT(Pp) \div (DeriveSS(Pp) * DeriveAl(Pp))
Unit(Pp, n) == DeriveAl(Pp) * CeilDiv(DeriveT(Pp), DeriveAl(Pp) * n)          \* bytes per symbol of the largest sub-block
WSCands(Pp) ==
  LET ns == {1, NmaxOf(Pp)} \cup (IF NmaxOf(Pp) >= 3 THEN {2, NmaxOf(Pp) - 1} ELSE {})
      edge == UNION {{BnMulSmall(BnFromInt(kp), Unit(Pp, n)), BnSub(BnMulSmall(BnFromInt(kp), Unit(Pp, n)), BnFromInt(1))}
                     : kp \in KpSel, n \in ns}
      wrap == UNION {{BnMulSmall(BnMulSmall(Bn2p32, Unit(Pp, n)), k),
                      BnAdd(BnMulSmall(BnMulSmall(Bn2p32, Unit(Pp, n)), k), BnMulSmall(BnFromInt(kp), Unit(Pp, n)))}
                     : k \in {1, 2}, n \in {NmaxOf(Pp)}, kp \in {10, 101}}
      fixed == {BnFromInt(10485760), BnFromInt(1), BnFromInt(1024), BnFromInt(65536), BnFromInt(1048576),
                BnSub(Bn2p32, BnFromInt(1)), Bn2p32, Bn2p40, BnSub(Bn2p64, BnFromInt(1)),
                BnMulSmall(Bn2p40, 4096), BnMulSmall(BnFromInt(1048576), 1000)}
  IN {w \in edge \cup wrap \cup fixed : BnLt(w, Bn2p64)}
FCands(Pp, WS) ==
  LET T == DeriveT(Pp)
      kl == KL(WS, T, DeriveAl(Pp), NmaxOf(Pp))
      fill(z) == BnMulSmall(BnMulSmall(BnFromInt(IF kl = 0 THEN 10 ELSE kl), T), z)
      near(w) == {BnSub(w, BnFromInt(1)), w, BnAddSmall(w, 1)}
  IN {f \in UNION {near(fill(z)) : z \in Mults} \cup {BnFromInt(1), BnFromInt(T), BnFromInt(T + 1), BnFromInt(100000),
                  BnMaxTransfer, BnFromInt(1000000007)} : ~BnIsZero(f) /\ BnFits40(f)}

CaseOf(F, Pp, WS) ==
  IF DeriveValid(F, Pp, WS)
  THEN LET d == Derive(F, Pp, WS) IN
       [kind |-> "derive", f |-> F, p |-> Pp, ws |-> WS, valid |-> TRUE, t |-> d.T, z |-> d.Z, n |-> d.N, al |-> d.Al,
        kt |-> d.Kt, klmax |-> d.KLmax]
  ELSE [kind |-> "derive", f |-> F, p |-> Pp, ws |-> WS, valid |-> FALSE]

Init == v_case = [kind |-> "root"]
Next == \/ /\ v_case.kind = "root"
           /\ \E Pp \in Ps : v_case' = [kind |-> "p", p |-> Pp]
        \/ /\ v_case.kind = "p"
           /\ \E WS \in WSCands(v_case.p) : \E F \in FCands(v_case.p, WS) : v_case' = CaseOf(F, v_case.p, WS)
Spec == Init /\ [][Next]_vars

IsCase == v_case.kind = "derive" /\ v_case.valid
\* RFC 4.3: T is a multiple of Al and the largest one not above P'
TMaximal == IsCase => v_case.t % v_case.al = 0 /\ v_case.t <= v_case.p /\ v_case.t + v_case.al > v_case.p
\* Z is the smallest number of blocks that keeps every block within KL(Nmax)
ZMinimal == IsCase => /\ CeilDiv(v_case.kt, v_case.z) <= v_case.klmax
                      /\ (v_case.z > 1 => CeilDiv(v_case.kt, v_case.z - 1) > v_case.klmax)
                      /\ v_case.z \in 1..255
\* N is the smallest sub-block count whose sub-blocks fit the budget
NMinimal == IsCase =>
   LET per == CeilDiv(v_case.kt, v_case.z) IN
   /\ v_case.n \in 1..NmaxOf(v_case.p)
   /\ per <= KL(v_case.ws, v_case.t, v_case.al, v_case.n)
   /\ (v_case.n > 1 => per > KL(v_case.ws, v_case.t, v_case.al, v_case.n - 1))
\* the derived configuration is one the constructor accepts
Constructible == IsCase => Accept(v_case.f, v_case.t, v_case.z, v_case.al)
\* a larger budget never yields more blocks
Bigger(w) == {BnAddSmall(w, 1), BnMulSmall(w, 2), BnSub(Bn2p64, BnFromInt(1)), BnAdd(w, Bn2p32)}
MonotoneInWS == IsCase =>
   \A w2 \in {w \in Bigger(v_case.ws) : BnLt(w, Bn2p64)} :
      DeriveValid(v_case.f, v_case.p, w2) /\ Derive(v_case.f, v_case.p, w2).Z <= v_case.z
Emit == v_case.kind = "derive" => PrintT(ToJson(v_case))
=============================================================================
