SPECIFICATION Spec
CONSTANTS Threads = {1,2,3,4,5,6,7,8,9,10,11,12,13,14,15,16}  Cap = 64
INVARIANTS Bounded Bijection RightPlanCached Transparent
POSTCONDITION Accepted
CHECK_DEADLOCK FALSE
