---------------------------- MODULE MC_PlanCache ----------------------------
(* Exhaustive model of PlanCache and generator of forced schedules (spec -> impl).
   Each thread issues Reqs requests with keys from Keys.  With EMIT = TRUE the behaviour so far is carried in a
   history variable (hidden from the state fingerprint only in the invariant-only run) and every completed behaviour
   is printed as one JSON line: the lock-acquisition order with the expected cache contents after each critical
   section. *)
EXTENDS PlanCache, TLC, Json
CONSTANTS Keys, Reqs, Prefill, EmitSchedules, InitialKeys     \* InitialKeys: every thread starts inside a request (schedule generation)
VARIABLES v_left, v_hist
vars == <<v_pc, v_key, v_plans, v_fifo, v_ret, v_left, v_hist>>

PrefillEmpty == <<>>
Prefill63 == [i \in 1..63 |-> i]          \* keys 1..63 cached, oldest first: one free slot; key 5 is a hit
Prefill64 == [i \in 1..64 |-> i]          \* full: every new key evicts

Init == /\ IF InitialKeys THEN v_key \in [Threads -> Keys] /\ v_pc = [t \in Threads |-> "Lookup"]
                           ELSE v_key = [t \in Threads |-> 0] /\ v_pc = [t \in Threads |-> "Idle"]
        /\ v_ret = [t \in Threads |-> 0]
        /\ v_plans = [k \in Range(Prefill) |-> k] /\ v_fifo = Prefill
        /\ v_left = [t \in Threads |-> Reqs] /\ v_hist = <<>>
Log(t, act) == IF EmitSchedules
               THEN v_hist' = Append(v_hist, [t |-> t, act |-> act, key |-> v_key'[t], ret |-> v_ret'[t],
                                              \* expected FIFO after the step = Prefill without its first `drop` keys, then `app`
                                              app |-> SelectSeq(v_fifo', LAMBDA x : x \notin Range(Prefill)),
                                              drop |-> Len(Prefill) - Cardinality(Range(v_fifo') \cap Range(Prefill))])
               ELSE UNCHANGED v_hist
Next ==
  \E t \in Threads :
     \/ \E k \in Keys : v_left[t] > 0 /\ Start(t, k) /\ v_left' = [v_left EXCEPT ![t] = @ - 1] /\ Log(t, "start")
     \/ LookupHit(t) /\ UNCHANGED v_left /\ Log(t, "hit")
     \/ LookupMiss(t) /\ UNCHANGED v_left /\ Log(t, "miss")
     \/ Generate(t) /\ UNCHANGED <<v_left, v_hist>>
     \/ InsertRace(t) /\ UNCHANGED v_left /\ Log(t, "race")
     \/ InsertNew(t) /\ UNCHANGED v_left /\ Log(t, "new")
Spec == Init /\ [][Next]_vars
Done == \A t \in Threads : v_pc[t] = "Idle" /\ v_left[t] = 0
Emit == EmitSchedules /\ Done => PrintT(ToJson([prefill |-> Len(Prefill), keys |-> v_key, steps |-> v_hist]))
=============================================================================
