---------------------------- MODULE MC_Wire ----------------------------
(* C13, spec -> impl: wire layouts.  TLC enumerates field values (every field at its extremes, every single bit,
   every byte position through all 256 values against three backgrounds - the layouts are byte-wise independent,
   which is why this covers the 2^32 / 2^88 spaces) with the expected bytes, and checks on the spec that parsing
   inverts serialising and that re-serialising a parsed buffer reproduces it except for the reserved byte. *)
EXTENDS Rfc6330Obj, TLC, Json, Integers
VARIABLE v_case
vars == <<v_case>>

Pow2(n) == 2^n
Bgs24 == {0, 10855845, 16777215}                       \* 0x000000, 0xA5A5A5, 0xFFFFFF
SetByte(val, pos, b) == (val - ((val \div Pow2(8*pos)) % 256) * Pow2(8*pos)) + b * Pow2(8*pos)
Esis == {0, 1, 255, 256, 65535, 65536, 16777214, 16777215} \cup {Pow2(k) : k \in 0..23}
        \cup {SetByte(bg, pos, b) : bg \in Bgs24, pos \in 0..2, b \in 0..255}
Sbns == {0, 1, 127, 128, 254, 255}
BufBgs == {0, 165, 255}
\* a buffer of n bytes: background bg with byte position pos set to b
Buf(n, bg, pos, b) == [i \in 1..n |-> IF i = pos THEN b ELSE bg]

Init == v_case = [what |-> "root"]
Next ==
  /\ v_case.what = "root"
  /\ \/ \E s \in Sbns, e \in Esis :
          v_case' = [kind |-> "wire", what |-> "pid", sbn |-> s, esi |-> e, bytes |-> PayloadIdBytes(s, e)]
     \/ \E bg \in BufBgs, pos \in 1..4, b \in 0..255 :
          LET buf == Buf(4, bg, pos, b) pid == PayloadIdOfBytes(buf) IN
          v_case' = [kind |-> "wire", what |-> "pidbuf", buf |-> buf, sbn |-> pid[1], esi |-> pid[2]]
     \/ \E bg \in BufBgs, pos \in 1..12, b \in 0..255 :
          LET buf == Buf(12, bg, pos, b) o == OtiOfBytes(buf) IN
          v_case' = [kind |-> "wire", what |-> "otibuf", buf |-> buf, f |-> o.F, t |-> o.T, z |-> o.Z, n |-> o.N,
                     al |-> o.Al, reser |-> OtiBytes(o.F, o.T, o.Z, o.N, o.Al)]
     \/ \E t \in {1, 2, 255, 256, 257, 1024, 65535}, z \in {1, 2, 255}, n \in {1, 255, 256, 65535}, al \in {1} :
        \E f \in {BnFromInt(1), BnFromInt(255), BnFromInt(256), BnFromInt(65536), BnFromInt(16777216),
                  BnSub(Bn2p32, BnFromInt(1)), Bn2p32, BnMulSmall(BnMulSmall(BnFromInt(56403), z), t), BnMaxTransfer} :
          Accept(f, t, z, al) /\
          v_case' = [kind |-> "wire", what |-> "otinew", f |-> f, t |-> t, z |-> z, n |-> n, al |-> al,
                     bytes |-> OtiBytes(f, t, z, n, al)]
     \/ \E len \in 0..70, s \in {0, 255}, e \in {0, 65536, 16777215} :
          LET payload == [i \in 1..len |-> (i * 37 + len) % 256] IN
          v_case' = [kind |-> "wire", what |-> "pkt", sbn |-> s, esi |-> e, payload |-> payload,
                     bytes |-> PacketBytes(s, e, payload)]
     \* long payloads (up to and beyond 2^16 octets): the case carries the RULE of the payload (octet i = (i*37 + len) mod 256,
     \* the same as above) instead of its octets; the packet is the 4 header octets followed by exactly those len octets
     \/ \E len \in {255, 256, 1500, 9000, 65535, 65536, 65537, 100000}, s \in {0, 255}, e \in {0, 16777215} :
          v_case' = [kind |-> "wire", what |-> "pktlong", sbn |-> s, esi |-> e, len |-> len, total |-> 4 + len,
                     head |-> PayloadIdBytes(s, e)]
Spec == Init /\ [][Next]_vars

RoundTrip ==
  /\ v_case.what = "pid" => /\ PayloadIdOfBytes(v_case.bytes) = <<v_case.sbn, v_case.esi>>
                            /\ Len(v_case.bytes) = 4 /\ \A i \in 1..4 : v_case.bytes[i] \in 0..255
  /\ v_case.what = "pidbuf" => PayloadIdBytes(v_case.sbn, v_case.esi) = v_case.buf
  /\ v_case.what = "otinew" => LET o == OtiOfBytes(v_case.bytes) IN
                               /\ o.F = v_case.f /\ o.T = v_case.t /\ o.Z = v_case.z /\ o.N = v_case.n /\ o.Al = v_case.al
                               /\ Len(v_case.bytes) = 12 /\ v_case.bytes[6] = 0
  /\ v_case.what = "otibuf" => \A i \in 1..12 : v_case.reser[i] = (IF i = 6 THEN 0 ELSE v_case.buf[i])
  /\ v_case.what = "pkt" => /\ Len(v_case.bytes) = 4 + Len(v_case.payload)
                            /\ SubSeq(v_case.bytes, 5, Len(v_case.bytes)) = v_case.payload
  /\ v_case.what = "pktlong" => PayloadIdOfBytes(v_case.head) = <<v_case.sbn, v_case.esi>> /\ v_case.total = v_case.len + 4
Emit == v_case.what # "root" => PrintT(ToJson(v_case))
=============================================================================
