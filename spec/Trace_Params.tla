---------------------------- MODULE Trace_Params ----------------------------
(* impl -> spec for C15: the systematic-constant functions for logged K, and intermediate_tuple for logged
   (K', X), must equal the specification's Params(K) and Tuple[K', X]; a panic is never accepted. *)
EXTENDS Rfc6330, TLC, Json, IOUtils
Rec == ndJsonDeserialize(IOEnv.TRACE)
VARIABLES v_pos, v_count
vars == <<v_pos, v_count>>
Chk(c, m) == IF c THEN TRUE ELSE PrintT(<<"MISMATCH", m>>) /\ FALSE

ParamsOk(e) ==
  /\ Chk(e.res = "ok", <<"systematic constants panicked", e.k>>)
  /\ e.res = "ok"
  /\ LET pr == Params(e.k) IN
     Chk(e.kp = pr.Kp /\ e.j = pr.J /\ e.s = pr.S /\ e.h = pr.H /\ e.w = pr.W /\ e.l = pr.L /\ e.p = pr.P /\ e.p1 = pr.P1,
         <<"code parameters differ from RFC 6330 Table 2 / 5.3.3.3", "K", e.k, "impl", <<e.kp, e.j, e.s, e.h, e.w, e.l, e.p, e.p1>>,
           "spec", <<pr.Kp, pr.J, pr.S, pr.H, pr.W, pr.L, pr.P, pr.P1>>>>)

TupleOk(e) ==
  /\ Chk(e.res = "ok", <<"intermediate_tuple panicked", "Kp", e.kp, "X", e.x>>)
  /\ e.res = "ok"
  /\ LET pr == Params(e.kp)  t == RqTuple(pr, e.x) IN
     /\ Chk(e.t = t, <<"tuple differs from RFC 6330 5.3.5.4", "Kp", e.kp, "X", e.x, "impl", e.t, "spec", t>>)
     /\ Chk(TupleInRange(pr, e.t), <<"tuple out of range", "Kp", e.kp, "X", e.x, e.t>>)

\* the degree function on its own: for one W, every listed v (at and around each threshold of the degree table)
DegOk(e) == \A i \in 1..Len(e.vs) : Chk(e.ds[i] = Deg(e.vs[i], e.w), <<"Deg differs from RFC 6330 5.3.5.2", "v", e.vs[i], "W", e.w, "impl", e.ds[i], "spec", Deg(e.vs[i], e.w)>>)

Init == v_pos = 1 /\ v_count = 0
Step ==
  /\ v_pos <= Len(Rec)
  /\ LET e == Rec[v_pos] IN
     \/ e.ev \in {"meta", "end"} /\ UNCHANGED v_count
     \/ e.ev = "params" /\ ParamsOk(e) = TRUE /\ v_count' = v_count + 1
     \/ e.ev = "tuple" /\ TupleOk(e) = TRUE /\ v_count' = v_count + 1
     \/ e.ev = "deg" /\ DegOk(e) = TRUE /\ v_count' = v_count + Len(e.vs)
  /\ v_pos' = v_pos + 1
Spec == Init /\ [][Step]_vars
Accepted == LET d == TLCGet("stats").diameter IN
            IF d - 1 = Len(Rec) /\ Rec[Len(Rec)].ev = "end" THEN TRUE ELSE PrintT(<<"REJECTED", d>>) /\ FALSE
=============================================================================
