SPECIFICATION Spec
INVARIANTS RoundTrip Emit
CHECK_DEADLOCK FALSE
