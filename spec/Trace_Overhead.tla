---------------------------- MODULE Trace_Overhead ----------------------------
(* C03 (statistical) with the C02 guarantee attached: the harness decodes uniformly random (K+h)-subsets of the 2^24
   encoding symbols with the real decoder; every failure it reports must be a genuine rank deficiency of the RFC
   constraint matrix (computed here by TLC), no decode may be wrong, and the failure frequencies must respect the
   advertised bounds (below 1%, 0.01%, 0.001% for h = 0, 1, 2) once enough trials have accumulated. *)
EXTENDS Rfc6330, TLC, Json, IOUtils
Rec == ndJsonDeserialize(IOEnv.TRACE)
VARIABLES v_pos, v_trials, v_fails, v_certified
vars == <<v_pos, v_trials, v_fails, v_certified>>
Chk(c, m) == IF c THEN TRUE ELSE PrintT(<<"MISMATCH", m>>) /\ FALSE

StatEvents == {n \in 1..Len(Rec) : Rec[n].ev = "stat"}
PreTab == TLCEval([ti \in {TabIdx(Rec[n].k) : n \in {x \in StatEvents : Len(Rec[x].fails) > 0}} |-> PreRows(ParamTab[ti])])     \* only where a failing set has to be certified
IsisOf(K, pr, S) == SetToSeq({e \in S : e < K} \cup (K..(pr.Kp - 1)) \cup {e + pr.Kp - K : e \in {x \in S : x >= K}})
SeqToSet(sq) == {sq[i] : i \in 1..Len(sq)}
Determined(K, S) == (\A i \in 0..(K-1) : i \in S) \/
                    (LET ti == TabIdx(K) pr == ParamTab[ti] IN FullRank(PreTab[ti], pr, IsisOf(K, pr, S)))

StatOk(e) ==
  /\ Chk(Len(e.wrong) = 0, <<"decoder returned wrong data for", e.k, e.wrong>>)
  /\ e.nfails >= Len(e.fails)
  /\ \A i \in 1..Len(e.fails) :
       LET S == SeqToSet(e.fails[i]) IN
       /\ Cardinality(S) = e.k + e.h
       /\ Chk(~Determined(e.k, S), <<"decoder gave up on a set that determines the block (spurious failure)", "K", e.k, "esis", e.fails[i]>>)

Init == v_pos = 1 /\ v_trials = [h \in 0..2 |-> 0] /\ v_fails = [h \in 0..2 |-> 0] /\ v_certified = 0
Step ==
  /\ v_pos <= Len(Rec)
  /\ LET e == Rec[v_pos] IN
     \/ e.ev \in {"meta", "end"} /\ UNCHANGED <<v_trials, v_fails, v_certified>>
     \/ /\ e.ev = "stat" /\ StatOk(e) = TRUE
        /\ v_trials' = [v_trials EXCEPT ![e.h] = @ + e.trials]
        /\ v_fails' = [v_fails EXCEPT ![e.h] = @ + e.nfails]
        /\ v_certified' = v_certified + Len(e.fails)
  /\ v_pos' = v_pos + 1
Spec == Init /\ [][Step]_vars

\* bounds apply once the sample is large enough that the advertised rate itself could not exceed them by chance
MinTrials == <<20000, 500000, 500000>>
Sum(f) == f[0] + f[1] + f[2]
Totals == LET t(h) == IF \E n \in StatEvents : Rec[n].h = h
                      THEN LET RECURSIVE acc(_) acc(n) == IF n = 0 THEN <<0, 0>> ELSE
                                   LET p == acc(n - 1) IN IF Rec[n].ev = "stat" /\ Rec[n].h = h THEN <<p[1] + Rec[n].trials, p[2] + Rec[n].nfails>> ELSE p
                           IN acc(Len(Rec))
                      ELSE <<0, 0>>
          IN [h \in 0..2 |-> t(h)]
RatesOk ==
  /\ Totals[0][1] >= MinTrials[1] => Chk(100 * Totals[0][2] < Totals[0][1], <<"failure rate at zero overhead is not below 1%", Totals[0]>>)
  /\ Totals[1][1] >= MinTrials[2] => Chk(10 * Totals[1][2] < Totals[1][1] \div 1000, <<"failure rate at one extra symbol is not below 0.01%", Totals[1]>>)
  /\ Totals[2][1] >= MinTrials[3] => Chk(100 * Totals[2][2] < Totals[2][1] \div 1000, <<"failure rate at two extra symbols is not below 0.001%", Totals[2]>>)
\* a small sample (500 <= n < 20000 trials at zero overhead, e.g. the large-K leg where one decode takes seconds): alarm only
\* if the failures exceed the advertised 1% by more than 6 standard deviations of a count with that mean (the measured rate is
\* about 0.5%, i.e. far below even the mean)
SmallRateOk == LET n == Totals[0][1]  f == Totals[0][2]  m == n \div 100 IN
               (n >= 500 /\ n < MinTrials[1]) =>
                  Chk(f <= m \/ (f - m) * (f - m) <= 36 * m, <<"failure rate at zero overhead exceeds 1% by more than 6 standard deviations", Totals[0]>>)
Accepted == LET d == TLCGet("stats").diameter IN
            IF d - 1 = Len(Rec) /\ Rec[Len(Rec)].ev = "end"
            THEN (IF RatesOk /\ SmallRateOk THEN PrintT(<<"TOTALS", Totals>>) ELSE PrintT(<<"REJECTED", 0>>) /\ FALSE)
            ELSE PrintT(<<"REJECTED", d>>) /\ FALSE
=============================================================================
