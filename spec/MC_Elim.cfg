SPECIFICATION Spec
CONSTANT NEq = 2
INVARIANTS SolutionSetPreserved IdentityReadsSolution
CHECK_DEADLOCK FALSE
