SPECIFICATION Spec
CONSTANTS Shapes <- TinyShapes  IndexedSteps = 0  FreeSteps = 0
INVARIANTS TypeOK
PROPERTIES RowSpacePreserved FreezeKeepsCells
CHECK_DEADLOCK FALSE
