---------------------------- MODULE MC_GF256 ----------------------------
(* Exhaustive check that GF256!Mul is the field of RFC 6330 5.7: one initial state per element,
   every invariant quantifies over the remaining operands (all 2^16 pairs / 2^24 triples). *)
EXTENDS GF256, FiniteSets, Integers
CONSTANT TripleSet      \* third operands for associativity/distributivity (Byte = all 2^24 triples)
VARIABLE v_elem
\* two-level fan-out (root -> 16 groups -> 16 elements each) so that TLC's workers share the 2^24 triples
Init == v_elem = 0 - 1
Next == \/ v_elem = 0 - 1 /\ v_elem' \in {0 - 2 - g : g \in 0..15}
        \/ v_elem < 0 - 1 /\ v_elem' \in {16 * (0 - 2 - v_elem) + k : k \in 0..15}
Spec == Init /\ [][Next]_v_elem
IsElem == v_elem >= 0

Closed == IsElem => \A q \in Byte : Mul(v_elem, q) \in Byte
Commutative == IsElem => \A q \in Byte : Mul(v_elem, q) = Mul(q, v_elem)
Identity == IsElem => Mul(v_elem, 1) = v_elem /\ Mul(v_elem, 0) = 0 /\ Add(v_elem, 0) = v_elem /\ Add(v_elem, v_elem) = 0
Inverse == IsElem /\ v_elem # 0 => /\ Mul(v_elem, Inv(v_elem)) = 1
                         /\ Cardinality({q \in Byte : Mul(v_elem, q) = 1}) = 1
                         /\ \A q \in Byte : Mul(Div(q, v_elem), v_elem) = q
NoZeroDivisors == IsElem => \A q \in Byte : Mul(v_elem, q) = 0 => v_elem = 0 \/ q = 0
Associative == IsElem => \A q \in Byte, r \in TripleSet : Mul(Mul(v_elem, q), r) = Mul(v_elem, Mul(q, r))
Distributive == IsElem => \A q \in Byte, r \in TripleSet : Mul(v_elem, Add(q, r)) = Add(Mul(v_elem, q), Mul(v_elem, r))
\* alpha = 2 generates the multiplicative group; exp/log tables are mutually inverse and periodic
Generator == IsElem => /\ {ExpTab[e] : e \in 0..254} = 1..255
             /\ (v_elem < 255 => ExpTab[v_elem] = ExpTab[v_elem + 255])
             /\ (v_elem < 255 => LogTab[ExpTab[v_elem]] = v_elem)
             /\ (v_elem # 0 => ExpTab[LogTab[v_elem]] = v_elem)
             /\ ExpTab[0] = 1 /\ ExpTab[1] = 2
             /\ (v_elem < 254 => ExpTab[v_elem + 1] = PolyMul(ExpTab[v_elem], 2))
\* product and quotient through the log/exp tables, and the index bounds that justify unchecked look-ups
LogExpForm == IsElem /\ v_elem # 0 => \A q \in 1..255 :
                 /\ LogTab[v_elem] + LogTab[q] <= 509
                 /\ Mul(v_elem, q) = ExpTab[LogTab[v_elem] + LogTab[q]]
                 /\ 255 + LogTab[v_elem] - LogTab[q] \in 0..509
                 /\ Div(v_elem, q) = ExpTab[255 + LogTab[v_elem] - LogTab[q]]
NibbleSplit == IsElem => \A q \in Byte : Add(NibLo(v_elem, q), NibHi(v_elem, q)) = Mul(v_elem, q)
=============================================================================
