---------------------------- MODULE Trace_Obj ----------------------------
(* impl -> spec for the object-level properties: C19 (constructor limits), C14 (derived parameters),
   C13 (wire formats).  Every logged call of the real API must be explained by Rfc6330Obj. *)
EXTENDS Rfc6330Obj, TLC, Json, IOUtils
Rec == ndJsonDeserialize(IOEnv.TRACE)
VARIABLES v_pos, v_count
vars == <<v_pos, v_count>>
Chk(c, m) == IF c THEN TRUE ELSE PrintT(<<"MISMATCH", m>>) /\ FALSE

(* C19 *)
AcceptOk(e) ==
  /\ Chk(BnWf(e.f), <<"malformed F">>)
  /\ Chk(e.accepted = Accept(e.f, e.t, e.z, e.al),
         <<"constructor verdict differs from the documented limits", "F", e.f, "T", e.t, "Z", e.z, "Al", e.al,
           "impl", e.accepted, "spec", Accept(e.f, e.t, e.z, e.al)>>)
  /\ e.accepted => Chk(e.oti.f = e.f /\ e.oti.t = e.t /\ e.oti.z = e.z /\ e.oti.n = e.n /\ e.oti.al = e.al,
                       <<"accessors do not echo the arguments", e.oti>>)

(* C14 *)
DeriveOk(e) ==
  IF ~DeriveValid(e.f, e.p, e.ws) THEN TRUE          \* no valid configuration exists: any outcome is acceptable
  ELSE LET d == Derive(e.f, e.p, e.ws) IN
       /\ Chk(e.res = "ok", <<"derivation failed although a valid configuration exists", "F", e.f, "P", e.p,
                              "WS", e.ws, e.res, "spec", d>>)
       /\ e.res = "ok"
       /\ Chk(e.oti.t = d.T /\ e.oti.z = d.Z /\ e.oti.n = d.N /\ e.oti.al = d.Al /\ e.oti.f = e.f,
              <<"derived parameters differ from RFC 6330 4.3", "F", e.f, "P", e.p, "WS", e.ws,
                "impl", e.oti, "spec", d>>)

(* C13 *)
IsByteSeq(bs, n) == Len(bs) = n /\ \A i \in 1..n : bs[i] \in 0..255
WireOk(e) ==
  CASE e.what = "pid" ->
         /\ Chk(e.ser = PayloadIdBytes(e.sbn, e.esi), <<"payload id layout", e.sbn, e.esi, e.ser>>)
         /\ Chk(e.de = <<e.sbn, e.esi>>, <<"payload id round trip", e.sbn, e.esi, e.de>>)
    [] e.what = "pidbuf" ->
         /\ IsByteSeq(e.buf, 4)
         /\ Chk(e.de = PayloadIdOfBytes(e.buf), <<"payload id parse", e.buf, e.de>>)
         /\ Chk(e.reser = e.buf, <<"payload id re-serialise", e.buf, e.reser>>)
    [] e.what = "oti" ->
         /\ Chk(e.ser = OtiBytes(e.f, e.t, e.z, e.n, e.al), <<"OTI layout", e.f, e.t, e.z, e.n, e.al, e.ser>>)
         /\ Chk(e.de.f = e.f /\ e.de.t = e.t /\ e.de.z = e.z /\ e.de.n = e.n /\ e.de.al = e.al,
                <<"OTI round trip", e.de>>)
    [] e.what = "otibuf" ->
         /\ IsByteSeq(e.buf, 12)
         /\ LET o == OtiOfBytes(e.buf) IN
            Chk(e.de.f = o.F /\ e.de.t = o.T /\ e.de.z = o.Z /\ e.de.n = o.N /\ e.de.al = o.Al,
                <<"OTI parse", e.buf, e.de>>)
         /\ Chk(\A i \in 1..12 : e.reser[i] = (IF i = 6 THEN 0 ELSE e.buf[i]), <<"OTI re-serialise", e.buf, e.reser>>)
    [] e.what = "pkt" ->
         /\ Chk(e.ser = PacketBytes(e.sbn, e.esi, e.payload), <<"packet layout", e.sbn, e.esi, Len(e.payload)>>)
         /\ Chk(e.de = <<e.sbn, e.esi, e.payload>>, <<"packet round trip", e.sbn, e.esi>>)
    [] e.what = "pktbuf" ->
         /\ Chk(e.de = <<e.buf[1], e.buf[2] * 65536 + e.buf[3] * 256 + e.buf[4], SubSeq(e.buf, 5, Len(e.buf))>>,
                <<"packet parse", e.buf>>)
         /\ Chk(e.reser = e.buf, <<"packet re-serialise", e.buf>>)

Init == v_pos = 1 /\ v_count = 0
Step ==
  /\ v_pos <= Len(Rec)
  /\ LET e == Rec[v_pos] IN
     \/ e.ev \in {"meta", "end"} /\ UNCHANGED v_count
     \/ e.ev = "accept" /\ AcceptOk(e) = TRUE /\ v_count' = v_count + 1
     \/ e.ev = "derive" /\ DeriveOk(e) = TRUE /\ v_count' = v_count + 1
     \/ e.ev = "wire" /\ WireOk(e) = TRUE /\ v_count' = v_count + 1
  /\ v_pos' = v_pos + 1
Spec == Init /\ [][Step]_vars
Accepted == LET d == TLCGet("stats").diameter IN
            IF d - 1 = Len(Rec) /\ Rec[Len(Rec)].ev = "end" THEN TRUE ELSE PrintT(<<"REJECTED", d>>) /\ FALSE
=============================================================================
