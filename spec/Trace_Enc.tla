---------------------------- MODULE Trace_Enc ----------------------------
(* impl -> spec for C04 (byte-exact RFC symbols) and C06 (every K' encodable, constraints hold, routes agree).
   One event per block encoder built by the harness.  mode "full": TLC solves A*C = D itself from the RFC
   definitions and recomputes every packet.  mode "cert": the implementation's intermediate symbols are
   certified to satisfy every LDPC, HDPC and LT relation of the RFC system (so they are its unique solution),
   and every repair packet is recomputed from them with the spec's Tuple/Enc. *)
EXTENDS Rfc6330, Json, IOUtils, TLC
Rec == ndJsonDeserialize(IOEnv.TRACE)
VARIABLES v_pos, v_cmap, v_blocks
vars == <<v_pos, v_cmap, v_blocks>>

Chk(c, m) == IF c THEN TRUE ELSE PrintT(<<"MISMATCH", m>>) /\ FALSE
Sbn(e) == IF "sbn" \in DOMAIN e THEN e.sbn ELSE 0      \* the block's number inside its object (route "obj": second block)

ColOf(syms, j) == [i \in 1..Len(syms) |-> syms[i][j]]

ColumnOk(e, K, T, pr, j) ==
  LET dcol == [i \in 1..K |-> e.data[(i-1)*T + j]]
      C == IF e.mode = "full" THEN SolveC(K, dcol) ELSE ColOf(e.c, j)
  IN /\ Chk(C # <<>>, <<"singular system", K>>)
     /\ Chk(Len(C) = pr.L, <<"wrong number of intermediate symbols", K, Len(C), pr.L>>)
     /\ IF e.mode = "cert"
        THEN /\ Chk(LdpcHolds(pr, C), <<"LDPC relation violated", K, e.route, j>>)
             /\ Chk(HdpcHolds(pr, C), <<"HDPC relation violated", K, e.route, j>>)
             /\ Chk(LtHolds(pr, K, C, dcol), <<"LT relation (source/padding) violated", K, e.route, j>>)
        ELSE IF e.mode = "light"      \* as cert, but the LT relations are checked on a spread of ~60 ISIs only
        THEN /\ Chk(LdpcHolds(pr, C), <<"LDPC relation violated", K, e.route, j>>)
             /\ Chk(HdpcHolds(pr, C), <<"HDPC relation violated", K, e.route, j>>)
             /\ LET stride == 1 + (pr.Kp \div 53) IN
                \A i \in {0, 1, K - 1, pr.Kp - 1} \cup {q \in 0..(pr.Kp - 1) : q % stride = 3 % stride} :
                   Chk(EncSym(pr, C, i) = (IF i < K THEN dcol[i+1] ELSE 0), <<"LT relation (source/padding) violated", K, e.route, j, "isi", i>>)
        ELSE \A i \in 0..(K-1) : Chk(EncSym(pr, C, i) = dcol[i+1], <<"spec self-check: Enc(source ISI)", K, i>>)
     /\ \A n \in 1..Len(e.rep) :
          LET r == e.rep[n] IN
          Chk(r[3][j] = EncSym(pr, C, IsiOfEsi(pr, K, r[2])),
              <<"repair symbol differs from RFC", "K", K, "esi", r[2], "byte", j, "got", r[3][j],
                "want", EncSym(pr, C, IsiOfEsi(pr, K, r[2]))>>)

BlockOk(e) ==
  LET K == e.k  T == e.t  pr == Params(K) IN
  /\ Chk(e.res = "ok", <<"encoder construction failed", K, e.route, e.res>>)
  /\ e.res = "ok"
  /\ Chk(Len(e.data) = K * T /\ Len(e.src) = K, <<"wrong number of source packets", K, Len(e.src)>>)
  /\ \A i \in 1..K : Chk(e.src[i][1] = Sbn(e) /\ e.src[i][2] = i - 1 /\ Len(e.src[i][3]) = T
                         /\ \A j \in 1..T : e.src[i][3][j] = e.data[(i-1)*T + j],
                         <<"source packet differs from source symbol", K, i - 1>>)
  /\ \A n \in 1..Len(e.rep) : Chk(e.rep[n][1] = Sbn(e) /\ e.rep[n][2] >= K /\ e.rep[n][2] < 16777216
                                   /\ Len(e.rep[n][3]) = T, <<"malformed repair packet", K, n>>)
  /\ \A j \in 1..T : ColumnOk(e, K, T, pr, j)

\* C06 "routes agree": all encoders for the same (K, T, data) hold identical intermediate symbols
RoutesAgree(e) ==
  LET key == <<e.k, e.t>> IN
  e.mode \in {"cert", "light"} /\ key \in DOMAIN v_cmap =>
      Chk(v_cmap[key] = e.c, <<"intermediate symbols differ between routes", e.k, e.route>>)

Init == v_pos = 1 /\ v_cmap = <<>> /\ v_blocks = 0
Step ==
  /\ v_pos <= Len(Rec)
  /\ LET e == Rec[v_pos] IN
     \/ e.ev = "meta" /\ UNCHANGED <<v_cmap, v_blocks>>
     \/ /\ e.ev = "block" /\ (BlockOk(e) /\ RoutesAgree(e)) = TRUE   \* "= TRUE": evaluate as a predicate (LET caching), not as an action
        /\ v_blocks' = v_blocks + 1
        /\ v_cmap' = IF e.mode \in {"cert", "light"} /\ <<e.k, e.t>> \notin DOMAIN v_cmap
                     THEN v_cmap @@ (<<e.k, e.t>> :> e.c) ELSE v_cmap
     \/ e.ev = "end" /\ UNCHANGED <<v_cmap, v_blocks>>
  /\ v_pos' = v_pos + 1
Spec == Init /\ [][Step]_vars
Accepted == LET d == TLCGet("stats").diameter IN
            IF d - 1 = Len(Rec) /\ Rec[Len(Rec)].ev = "end" THEN TRUE ELSE PrintT(<<"REJECTED", d>>) /\ FALSE
=============================================================================
