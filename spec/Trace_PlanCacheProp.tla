---------------------------- MODULE Trace_PlanCacheProp ----------------------------
(* The conditions of property C17 alone, on the recorded critical sections of the plan cache - no model of HOW the
   cache works (no eviction order, no shape of a request): after every critical section the cache holds at most Cap
   plans, its map and its queue hold the same keys with no key queued twice, every plan is cached under the symbol
   count it was generated for, and every encoder a request produced equals the cache-less one.  Used when
   Trace_PlanCache rejects a trace: if this specification accepts it, the code left the model (PlanCache.tla) without
   breaking the property - reported as a model deviation, not as a violation. *)
EXTENDS Naturals, Sequences, FiniteSets, TLC, Json, IOUtils
CONSTANTS Threads, Cap
Rec == ndJsonDeserialize(IOEnv.TRACE)
VARIABLE v_pos
Chk(c, m) == IF c THEN TRUE ELSE PrintT(<<"MISMATCH", m>>) /\ FALSE
Range(sq) == {sq[k] : k \in 1..Len(sq)}
CsOk(e) ==
  /\ Chk(Len(e.plans) <= Cap, <<"cache exceeds its capacity", Len(e.plans)>>)
  /\ Chk(Range(e.fifo) = {e.plans[i][1] : i \in 1..Len(e.plans)} /\ Len(e.fifo) = Cardinality(Range(e.fifo)) /\ Len(e.plans) = Len(e.fifo),
         <<"map and queue of the cache disagree after", e.kind, "key", e.key>>)
  /\ Chk(\A i \in 1..Len(e.plans) : e.plans[i][1] = e.plans[i][2], <<"a plan is cached under another symbol count after", e.kind, "key", e.key>>)
Init == v_pos = 1
Step == /\ v_pos <= Len(Rec)
        /\ LET e == Rec[v_pos] IN
           \/ e.ev \in {"meta", "end"}
           \/ e.ev = "cs" /\ CsOk(e) = TRUE
           \/ e.ev = "ret" /\ Chk(e.same, <<"encoder built through the cache differs from the cache-less one", "key", e.key, "thread", e.t>>) = TRUE
        /\ v_pos' = v_pos + 1
Spec == Init /\ [][Step]_v_pos
Accepted == LET d == TLCGet("stats").diameter IN
            IF d - 1 = Len(Rec) /\ Rec[Len(Rec)].ev = "end" THEN TRUE ELSE PrintT(<<"REJECTED", d>>) /\ FALSE
=============================================================================
