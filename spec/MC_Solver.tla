---------------------------- MODULE MC_Solver ----------------------------
(* Exhaustive model of the solver schema on all binary systems with NR equations and NC unknowns, every
   nondeterministic choice of pivot row, pivot column and inactivation order.  Checks: Figure 6 holds after every
   first-phase step; the first phase gets stuck ("no row with a nonzero in V") only on rank-deficient systems; the
   run ends solved iff the system has full column rank - i.e. the algorithm never gives up on a determined system
   and never answers for an undetermined one (property C02 at the level of the algorithm). *)
EXTENDS Solver, TLC
CONSTANTS NR, NC
VARIABLES v_B, v_i, v_u, v_pc, v_full
vars == <<v_B, v_i, v_u, v_pc, v_full>>
Xor(p, q) == IF p = q THEN 0 ELSE 1
\* GF(2) column rank = NC  <=>  no nonzero vector in the kernel
FullColumnRank(B) == \A x \in [0..(NC - 1) -> {0, 1}] :
                        (\E c \in 0..(NC - 1) : x[c] = 1) =>
                        \E r \in 0..(NR - 1) : Cardinality({c \in 0..(NC - 1) : B[r][c] = 1 /\ x[c] = 1}) % 2 = 1
SwapRowsB(B, a, b) == [r \in 0..(NR - 1) |-> IF r = a THEN B[b] ELSE IF r = b THEN B[a] ELSE B[r]]
\* apply a column permutation given as a function new position -> old position
PermCols(B, f) == [r \in 0..(NR - 1) |-> [c \in 0..(NC - 1) |-> B[r][f[c]]]]

Init == /\ v_B \in [0..(NR - 1) -> [0..(NC - 1) -> {0, 1}]]
        /\ v_i = 0 /\ v_u = 0 /\ v_pc = "phase1" /\ v_full = FullColumnRank(v_B)

VCols == v_i..(NC - v_u - 1)
RowsWithV == {r \in v_i..(NR - 1) : \E c \in VCols : v_B[r][c] = 1}
Phase1Step ==
  /\ v_pc = "phase1" /\ v_i + v_u < NC /\ RowsWithV # {}
  /\ \E row \in RowsWithV :
       LET ones == {c \in VCols : v_B[row][c] = 1}
           r == Cardinality(ones)
       IN \E piv \in ones :
          \* new column order: [0..i-1] unchanged, pivot at i, the untouched V columns, then the other ones of the row, then U
          \E f \in [0..(NC - 1) -> 0..(NC - 1)] :
             /\ \A c \in 0..(v_i - 1) : f[c] = c
             /\ f[v_i] = piv
             /\ \A c \in (NC - v_u)..(NC - 1) : f[c] = c
             /\ {f[c] : c \in (NC - v_u - (r - 1))..(NC - v_u - 1)} = ones \ {piv}
             /\ {f[c] : c \in 0..(NC - 1)} = 0..(NC - 1)
             /\ LET B1 == PermCols(SwapRowsB(v_B, v_i, row), f)
                    B2 == [q \in 0..(NR - 1) |-> IF q > v_i /\ B1[q][v_i] = 1
                                                  THEN [c \in 0..(NC - 1) |-> Xor(B1[q][c], B1[v_i][c])] ELSE B1[q]]
                IN v_B' = B2
             /\ v_i' = v_i + 1 /\ v_u' = v_u + (r - 1)
  /\ UNCHANGED <<v_pc, v_full>>
Phase1Stuck == /\ v_pc = "phase1" /\ v_i + v_u < NC /\ RowsWithV = {}
               /\ v_pc' = "none" /\ UNCHANGED <<v_B, v_i, v_u, v_full>>
\* second phase as one step: U_lower (rows i.., columns i..) has full column rank or not
ULowerFull == \A x \in [v_i..(NC - 1) -> {0, 1}] :
                 (\E c \in v_i..(NC - 1) : x[c] = 1) =>
                 \E r \in v_i..(NR - 1) : Cardinality({c \in v_i..(NC - 1) : v_B[r][c] = 1 /\ x[c] = 1}) % 2 = 1
Phase2 == /\ v_pc = "phase1" /\ v_i + v_u = NC
          /\ v_pc' = (IF ULowerFull THEN "solved" ELSE "none") /\ UNCHANGED <<v_B, v_i, v_u, v_full>>
Next == Phase1Step \/ Phase1Stuck \/ Phase2
Spec == Init /\ [][Next]_vars

Figure6 == v_pc = "phase1" => Fig6(v_B, NR, NC, v_i, v_u)
RankInvariant == FullColumnRank(v_B) = v_full               \* row operations and permutations never change decodability
SolvedIffDetermined == /\ v_pc = "solved" => v_full
                       /\ v_pc = "none" => ~v_full
=============================================================================
