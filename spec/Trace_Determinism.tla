---------------------------- MODULE Trace_Determinism ----------------------------
(* C07 - results depend only on the inputs.  One seeded workload is run under every configuration (build profile,
   std / no_std, forced kernel level, matrix back-end threshold, plan route).  The specification: the outcome of a
   scenario (its packets, or its decode result) is a function of the scenario alone.  The first configuration that
   reports a scenario fixes that function; every later configuration must report exactly the same outcome.
   (That the common outcome is also the *right* one is established on the default configuration by C04 / C01.) *)
EXTENDS Naturals, Sequences, FiniteSets, TLC, Json, IOUtils
Rec == ndJsonDeserialize(IOEnv.TRACE)
VARIABLES v_pos, v_outcome, v_cfgs
vars == <<v_pos, v_outcome, v_cfgs>>
Chk(c, m) == IF c THEN TRUE ELSE PrintT(<<"MISMATCH", m>>) /\ FALSE

ScnStep(e) ==
  /\ Chk(e.out.res # "panic", <<"scenario panicked", e.cfg, e.sid, e.out>>) = TRUE
  /\ IF e.sid \in DOMAIN v_outcome
     THEN /\ Chk(v_outcome[e.sid].out = e.out,
                 <<"outcome depends on the configuration", "scenario", e.sid, "configuration", e.cfg,
                   "first seen under", v_outcome[e.sid].cfg>>) = TRUE
          /\ UNCHANGED v_outcome
     ELSE v_outcome' = (e.sid :> [out |-> e.out, cfg |-> e.cfg]) @@ v_outcome
  /\ v_cfgs' = v_cfgs \cup {e.cfg}

Init == v_pos = 1 /\ v_outcome = <<>> /\ v_cfgs = {}
Step == /\ v_pos <= Len(Rec)
        /\ LET e == Rec[v_pos] IN
           \/ e.ev \in {"meta", "end", "skipped"} /\ UNCHANGED <<v_outcome, v_cfgs>>
           \/ e.ev = "scn" /\ ScnStep(e)
        /\ v_pos' = v_pos + 1
Spec == Init /\ [][Step]_vars
Accepted == LET d == TLCGet("stats").diameter IN
            IF d - 1 = Len(Rec) /\ Rec[Len(Rec)].ev = "end" THEN TRUE ELSE PrintT(<<"REJECTED", d>>) /\ FALSE
=============================================================================
