SPECIFICATION SimSpec
CONSTANTS Shapes <- SimShapes  IndexedSteps = 110  FreeSteps = 25
INVARIANTS TypeOK Emit
CHECK_DEADLOCK FALSE
