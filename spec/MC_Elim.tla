---------------------------- MODULE MC_Elim ----------------------------
(* Exhaustive check of Elim.tla on small systems: 2 unknowns, 3 equations, coefficients and right-hand sides from
   the subfield GF(4) of GF(256) (closed under the field operations); every admissible row operation.  The state is
   the augmented matrix (the last column is the right-hand side D, which the same operations act on).  Invariant:
   the solution set never changes - which is why replaying the solver's recorded operations on the RFC matrix and
   ending in the identity certifies the computed intermediate symbols for every data content. *)
EXTENDS Elim, TLC, FiniteSets
F4 == {x \in 0..255 : Mul(Mul(x, x), Mul(x, x)) = x}
CONSTANT NEq
NUn == 2
VARIABLE v_sol0
Sol(M) == {cv \in [1..NUn -> F4] : \A r \in 1..NEq : (Mul(M[r][1], cv[1]) ^^ Mul(M[r][2], cv[2])) = M[r][3]}
Init == /\ v_mat \in [1..NEq -> [1..(NUn + 1) -> {0, 1, CHOOSE x \in F4 : x > 1}]]
        /\ v_sol0 = Sol(v_mat)
Next == /\ UNCHANGED v_sol0
        /\ \E d \in 0..(NEq - 1), s \in 0..(NEq - 1), beta \in F4 \ {0} :
             \/ d # s /\ RowAdd(d, s)
             \/ RowMul(d, beta)
             \/ d # s /\ RowFma(d, s, beta)
Spec == Init /\ [][Next]_<<v_mat, v_sol0>>
SolutionSetPreserved == Sol(v_mat) = v_sol0
\* when the first NUn rows form the identity, the unique solution is read off the right-hand side
IdentityReadsSolution ==
  (\A j \in 0..(NUn - 1) : \A c \in 1..NUn : v_mat[j + 1][c] = (IF c = j + 1 THEN 1 ELSE 0)) /\ v_sol0 # {}
      => v_sol0 = {[c \in 1..NUn |-> v_mat[c][NUn + 1]]}
=============================================================================
