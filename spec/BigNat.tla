---------------------------- MODULE BigNat ----------------------------
(* Naturals below 2^72 on six base-4096 limbs (little-endian): transfer lengths (40 bit) and memory budgets
   (64 bit) exceed TLC's 32-bit integers.  Only operations with a *small* second operand (< 2^17) are
   needed: every divisor in RFC 6330 4.3 / 4.4.1.2 is a symbol size, block count or table size. *)
EXTENDS Naturals, Sequences

BnBase == 4096
BnLen == 6
BnZero == <<0, 0, 0, 0, 0, 0>>
BnFromInt(n) == <<n % 4096, (n \div 4096) % 4096, (n \div 16777216) % 4096, 0, 0, 0>>     \* n < 2^31
BnFitsInt(w) == w[4] = 0 /\ w[5] = 0 /\ w[6] = 0 /\ w[3] < 128
BnToInt(w) == w[1] + 4096 * w[2] + 16777216 * w[3]                                         \* only if BnFitsInt
BnIsZero(w) == \A k \in 1..BnLen : w[k] = 0

\* comparison: -1, 0, 1 encoded as 0 (less), 1 (equal), 2 (greater)
RECURSIVE BnCmpFrom(_, _, _)
BnCmpFrom(pw, qw, k) ==
  IF k = 0 THEN 1
  ELSE IF pw[k] < qw[k] THEN 0 ELSE IF pw[k] > qw[k] THEN 2 ELSE BnCmpFrom(pw, qw, k - 1)
BnLe(pw, qw) == BnCmpFrom(pw, qw, BnLen) # 2
BnLt(pw, qw) == BnCmpFrom(pw, qw, BnLen) = 0
BnEq(pw, qw) == pw = qw

\* division by a small divisor d (0 < d < 2^17): <<quotient, remainder>>
BnDivMod(w, d) ==
  LET r6 == w[6] % d                      q6 == w[6] \div d
      t5 == r6 * 4096 + w[5]   r5 == t5 % d   q5 == t5 \div d
      t4 == r5 * 4096 + w[4]   r4 == t4 % d   q4 == t4 \div d
      t3 == r4 * 4096 + w[3]   r3 == t3 % d   q3 == t3 \div d
      t2 == r3 * 4096 + w[2]   r2 == t2 % d   q2 == t2 \div d
      t1 == r2 * 4096 + w[1]   r1 == t1 % d   q1 == t1 \div d
  IN <<(<<q1, q2, q3, q4, q5, q6>>), r1>>
BnDiv(w, d) == BnDivMod(w, d)[1]
BnMod(w, d) == BnDivMod(w, d)[2]

\* w + s for a small s (< 2^17)
BnAddSmall(w, s) ==
  LET a1 == w[1] + s
      a2 == w[2] + (a1 \div 4096)
      a3 == w[3] + (a2 \div 4096)
      a4 == w[4] + (a3 \div 4096)
      a5 == w[5] + (a4 \div 4096)
      a6 == w[6] + (a5 \div 4096)
  IN <<a1 % 4096, a2 % 4096, a3 % 4096, a4 % 4096, a5 % 4096, a6 % 4096>>

BnCeilDiv(w, d) == LET qr == BnDivMod(w, d) IN IF qr[2] = 0 THEN qr[1] ELSE BnAddSmall(qr[1], 1)

\* w * s for a small s (< 2^17); result must stay below 2^72
BnMulSmall(w, s) ==
  LET m1 == w[1] * s
      m2 == w[2] * s + (m1 \div 4096)
      m3 == w[3] * s + (m2 \div 4096)
      m4 == w[4] * s + (m3 \div 4096)
      m5 == w[5] * s + (m4 \div 4096)
      m6 == w[6] * s + (m5 \div 4096)
  IN <<m1 % 4096, m2 % 4096, m3 % 4096, m4 % 4096, m5 % 4096, m6 % 4096>>

\* p + q and p - q (p >= q)
BnAdd(pw, qw) ==
  LET a1 == pw[1] + qw[1]
      a2 == pw[2] + qw[2] + (a1 \div 4096)
      a3 == pw[3] + qw[3] + (a2 \div 4096)
      a4 == pw[4] + qw[4] + (a3 \div 4096)
      a5 == pw[5] + qw[5] + (a4 \div 4096)
      a6 == pw[6] + qw[6] + (a5 \div 4096)
  IN <<a1 % 4096, a2 % 4096, a3 % 4096, a4 % 4096, a5 % 4096, a6 % 4096>>
BnSub(pw, qw) ==
  LET d1 == pw[1] + 4096 - qw[1]                         b1 == IF d1 < 4096 THEN 1 ELSE 0
      d2 == pw[2] + 4096 - qw[2] - b1                    b2 == IF d2 < 4096 THEN 1 ELSE 0
      d3 == pw[3] + 4096 - qw[3] - b2                    b3 == IF d3 < 4096 THEN 1 ELSE 0
      d4 == pw[4] + 4096 - qw[4] - b3                    b4 == IF d4 < 4096 THEN 1 ELSE 0
      d5 == pw[5] + 4096 - qw[5] - b4                    b5 == IF d5 < 4096 THEN 1 ELSE 0
      d6 == pw[6] + 4096 - qw[6] - b5
  IN <<d1 % 4096, d2 % 4096, d3 % 4096, d4 % 4096, d5 % 4096, d6 % 4096>>
Bn2p32 == <<0, 0, 256, 0, 0, 0>>
Bn2p40 == <<0, 0, 0, 16, 0, 0>>
Bn2p64 == <<0, 0, 0, 0, 0, 16>>

\* well-formed limb vector as written by the harness
BnWf(w) == Len(w) = BnLen /\ \A k \in 1..BnLen : w[k] \in 0..4095

\* big-endian bytes of the low 40 bits (for the OTI wire format); requires w < 2^40
BnBytes5(w) ==
  LET b0 == w[1] % 256
      b1 == (w[1] \div 256) + (w[2] % 16) * 16
      b2 == w[2] \div 16
      b3 == w[3] % 256
      b4 == (w[3] \div 256) + (w[4] % 16) * 16
  IN <<b4, b3, b2, b1, b0>>
BnFits40(w) == w[4] < 16 /\ w[5] = 0 /\ w[6] = 0
BnFromBytes5(bs) ==      \* bs = <<b4, b3, b2, b1, b0>> big-endian
  <<bs[5] + (bs[4] % 16) * 256, (bs[4] \div 16) + bs[3] * 16, bs[2] + (bs[1] % 16) * 256, bs[1] \div 16, 0, 0>>

\* the constant 942574504275 = 56403 * 255 * 65535 (errata 5548), computed rather than transcribed
BnMaxTransfer == BnMulSmall(BnMulSmall(BnFromInt(56403), 255), 65535)
=============================================================================
