---------------------------- MODULE Rfc6330Obj ----------------------------
(***************************************************************************)
(* Object level of RFC 6330: Partition (4.4.1.2), source block / sub-block *)
(* layout, derivation of the transmission parameters (4.3), the limits of  *)
(* the configuration constructor, and the wire layouts (3.2, 3.3.2,        *)
(* 3.3.3, 4.4.2).  Written from the RFC text.  Quantities beyond 31 bits   *)
(* (transfer length F, memory budget WS) are BigNat limb vectors.          *)
(***************************************************************************)
EXTENDS BigNat, Rfc6330Tables, Naturals, Sequences, FiniteSets

KMax == 56403
CeilDiv(p, q) == (p + q - 1) \div q

---------------------------------------------------------------------------
(* Partition[I, J] = (IL, IS, JL, JS): J blocks, JL of length IL and JS of length IS *)
Partition(I, J) ==
  LET IL == CeilDiv(I, J)
      IS == I \div J
      JL == I - IS * J
      JS == J - JL
  IN <<IL, IS, JL, JS>>
PartitionIdentities(I, J) ==
  LET p == Partition(I, J) IN
  /\ p[1] * p[3] + p[2] * p[4] = I
  /\ p[3] + p[4] = J
  /\ p[1] - p[2] \in {0, 1}
  /\ (p[3] = 0 => p[1] = p[2])
  /\ p[4] >= 1

---------------------------------------------------------------------------
(* Source block structure for (F, T, Z) with Kt = ceil(F/T) (Kt given as an integer) *)
BlockSymbols(Kt, Z, sbn) == LET p == Partition(Kt, Z) IN IF sbn < p[3] THEN p[1] ELSE p[2]
\* first source symbol (object-wide index) of block sbn
BlockStart(Kt, Z, sbn) ==
  LET p == Partition(Kt, Z) IN IF sbn <= p[3] THEN sbn * p[1] ELSE p[3] * p[1] + (sbn - p[3]) * p[2]

(* Sub-blocking: T/Al units are partitioned into N sub-blocks: NL of TL*Al bytes, NS of TS*Al bytes.
   Within a source block of K symbols, sub-block n holds K sub-symbols contiguously; symbol m is the
   concatenation of the m-th sub-symbol of every sub-block.  For position q (0-based) inside symbol m this
   gives the offset of that byte inside the block. *)
SubSizes(T, Al, N) == LET p == Partition(T \div Al, N) IN
                      [n \in 0..(N-1) |-> IF n < p[3] THEN p[1] * Al ELSE p[2] * Al]
RECURSIVE SubPrefix(_, _)
SubPrefix(sizes, n) == IF n = 0 THEN 0 ELSE sizes[n-1] + SubPrefix(sizes, n - 1)     \* bytes of sub-symbols before sub-block n
\* which sub-block contains byte q of a symbol, and the offset inside the sub-symbol
SubOf(sizes, N, q) == CHOOSE n \in 0..(N-1) : SubPrefix(sizes, n) <= q /\ q < SubPrefix(sizes, n) + sizes[n]
\* offset inside the block (K symbols) of byte q of symbol m
BlockByteOffset(K, T, Al, N, m, q) ==
  LET sizes == SubSizes(T, Al, N)
      n == SubOf(sizes, N, q)
      before == SubPrefix(sizes, n)
  IN K * before + m * sizes[n] + (q - before)

---------------------------------------------------------------------------
(* The configuration constructor (errata 5548 limit; 4.4.1.2 "ceil(ceil(F/T)/Z) <= K'_max") *)
\* F: BigNat.  Positive T, Z, Al.
SymbolsPerBlockBn(F, T, Z) == BnCeilDiv(BnCeilDiv(F, T), Z)
Accept(F, T, Z, Al) ==
  /\ BnLe(F, BnMaxTransfer)
  /\ T % Al = 0
  /\ BnLe(SymbolsPerBlockBn(F, T, Z), BnFromInt(KMax))

---------------------------------------------------------------------------
(* 4.3 derivation.  Inputs: F (BigNat), P' (max payload), WS (BigNat).  The crate fixes Al and SS from P':
   Al = SS = 8 when P' >= 64, else 1 (a choice the RFC leaves to the sender). *)
DeriveAl(Pp) == IF Pp >= 64 THEN 8 ELSE 1
DeriveSS(Pp) == IF Pp >= 64 THEN 8 ELSE 1
DeriveT(Pp) == Pp - (Pp % DeriveAl(Pp))              \* "T = P'" rounded down to a multiple of Al
\* KL(n): the maximum K' in Table 2 with K' <= WS / (Al * ceil(T / (Al*n))); 0 if none
KLq(WS, T, Al, n) == BnDiv(WS, Al * CeilDiv(T, Al * n))
KL(WS, T, Al, n) ==
  LET q == KLq(WS, T, Al, n)
      lim == IF BnFitsInt(q) THEN BnToInt(q) ELSE 2147483647
      cnt == Cardinality({ti \in 1..477 : Table2[ti][1] <= lim})      \* Table 2 is sorted by K'
  IN IF cnt = 0 THEN 0 ELSE Table2[cnt][1]
RECURSIVE FindN(_, _, _, _, _, _)
FindN(per, WS, T, Al, n, Nmax) ==            \* smallest n in n..Nmax with per <= KL(n); Nmax if none below it
  IF n >= Nmax \/ per <= KL(WS, T, Al, n) THEN n ELSE FindN(per, WS, T, Al, n + 1, Nmax)
Derive(F, Pp, WS) ==
  LET Al == DeriveAl(Pp)
      T == DeriveT(Pp)
      KtB == BnCeilDiv(F, T)
      Nmax == T \div (DeriveSS(Pp) * Al)
      klmax == KL(WS, T, Al, Nmax)
      ZB == BnCeilDiv(KtB, klmax)
      Z == BnToInt(ZB)
      perBlock == BnToInt(BnCeilDiv(KtB, Z))
      N == FindN(perBlock, WS, T, Al, 1, Nmax)
  IN [T |-> T, Z |-> Z, N |-> N, Al |-> Al, Kt |-> BnToInt(KtB), KLmax |-> klmax]
\* "a valid configuration exists": some K' fits the budget, at most 255 blocks, F within the limit
DeriveValid(F, Pp, WS) ==
  LET Al == DeriveAl(Pp)
      T == DeriveT(Pp)
      Nmax == T \div (DeriveSS(Pp) * Al)
  IN /\ Pp >= Al /\ T >= 1 /\ Nmax >= 1
     /\ ~BnIsZero(F) /\ BnLe(F, BnMaxTransfer)
     /\ KL(WS, T, Al, Nmax) > 0
     /\ LET ZB == BnCeilDiv(BnCeilDiv(F, T), KL(WS, T, Al, Nmax)) IN BnFitsInt(ZB) /\ BnToInt(ZB) <= 255

---------------------------------------------------------------------------
(* Wire formats, big-endian *)
PayloadIdBytes(sbn, esi) == <<sbn, esi \div 65536, (esi \div 256) % 256, esi % 256>>
PayloadIdOfBytes(bs) == <<bs[1], bs[2] * 65536 + bs[3] * 256 + bs[4]>>
PacketBytes(sbn, esi, payload) == PayloadIdBytes(sbn, esi) \o payload
\* OTI: F (40 bit), reserved 0, T (16), Z (8), N (16), Al (8)
OtiBytes(F, T, Z, N, Al) ==
  BnBytes5(F) \o <<0, T \div 256, T % 256, Z, N \div 256, N % 256, Al>>
OtiOfBytes(bs) == [F |-> BnFromBytes5(<<bs[1], bs[2], bs[3], bs[4], bs[5]>>), T |-> bs[7] * 256 + bs[8],
                   Z |-> bs[9], N |-> bs[10] * 256 + bs[11], Al |-> bs[12]]
=============================================================================
