---------------------------- MODULE PlanCache ----------------------------
(***************************************************************************)
(* The process-wide encoding-plan cache (property C17) as the code does    *)
(* it: get_or_generate(key) is  Lookup (critical section 1)  ->  Generate  *)
(* (no lock held)  ->  Insert (critical section 2, with a second look-up). *)
(* The cache is a map key -> plan plus a FIFO of keys; at capacity the     *)
(* oldest key is evicted.  A plan is identified by the symbol count it was *)
(* generated for: PlanOf(key) = key.  One action per critical section.     *)
(***************************************************************************)
EXTENDS Naturals, Sequences, FiniteSets
CONSTANTS Threads, Cap
VARIABLES v_pc,      \* thread -> "Idle" | "Lookup" | "Generate" | "Insert"
          v_key,     \* thread -> key of the request in progress
          v_plans,   \* the map, as a function key -> symbol count of the cached plan
          v_fifo,    \* insertion order
          v_ret      \* thread -> symbol count of the plan returned by the last finished request (0: none yet)
cvars == <<v_pc, v_key, v_plans, v_fifo, v_ret>>
Range(sq) == {sq[k] : k \in 1..Len(sq)}

Start(t, k) == /\ v_pc[t] = "Idle"
               /\ v_key' = [v_key EXCEPT ![t] = k] /\ v_pc' = [v_pc EXCEPT ![t] = "Lookup"]
               /\ UNCHANGED <<v_plans, v_fifo, v_ret>>
LookupHit(t) == /\ v_pc[t] = "Lookup" /\ v_key[t] \in DOMAIN v_plans
                /\ v_ret' = [v_ret EXCEPT ![t] = v_plans[v_key[t]]] /\ v_pc' = [v_pc EXCEPT ![t] = "Idle"]
                /\ UNCHANGED <<v_key, v_plans, v_fifo>>
LookupMiss(t) == /\ v_pc[t] = "Lookup" /\ v_key[t] \notin DOMAIN v_plans
                 /\ v_pc' = [v_pc EXCEPT ![t] = "Generate"]
                 /\ UNCHANGED <<v_key, v_plans, v_fifo, v_ret>>
Generate(t) == /\ v_pc[t] = "Generate" /\ v_pc' = [v_pc EXCEPT ![t] = "Insert"]
               /\ UNCHANGED <<v_key, v_plans, v_fifo, v_ret>>
InsertRace(t) == /\ v_pc[t] = "Insert" /\ v_key[t] \in DOMAIN v_plans
                 /\ v_ret' = [v_ret EXCEPT ![t] = v_plans[v_key[t]]] /\ v_pc' = [v_pc EXCEPT ![t] = "Idle"]
                 /\ UNCHANGED <<v_key, v_plans, v_fifo>>
\* restrict a function to a sub-domain
Restrict(f, S) == [x \in S |-> f[x]]
InsertNew(t) ==
  /\ v_pc[t] = "Insert" /\ v_key[t] \notin DOMAIN v_plans
  /\ LET k == v_key[t]
         evict == Cardinality(DOMAIN v_plans) >= Cap /\ Len(v_fifo) > 0
         base == IF evict THEN Restrict(v_plans, DOMAIN v_plans \ {Head(v_fifo)}) ELSE v_plans
     IN /\ v_plans' = [x \in DOMAIN base \cup {k} |-> IF x = k THEN k ELSE base[x]]      \* the generated plan is PlanOf(k) = k
        /\ v_fifo' = Append(IF evict THEN Tail(v_fifo) ELSE v_fifo, k)
  /\ v_ret' = [v_ret EXCEPT ![t] = v_key[t]] /\ v_pc' = [v_pc EXCEPT ![t] = "Idle"]
  /\ UNCHANGED v_key

\* Compositions used by trace validation, where a look-up is observed together with the start of its request and a
\* miss together with the (unlocked, unobservable) generation:  Start ; LookupHit   and   Start ; LookupMiss ; Generate
RequestHit(t, k) == /\ v_pc[t] = "Idle" /\ k \in DOMAIN v_plans
                    /\ v_key' = [v_key EXCEPT ![t] = k] /\ v_ret' = [v_ret EXCEPT ![t] = v_plans[k]]
                    /\ UNCHANGED <<v_pc, v_plans, v_fifo>>
RequestMiss(t, k) == /\ v_pc[t] = "Idle" /\ k \notin DOMAIN v_plans
                     /\ v_key' = [v_key EXCEPT ![t] = k] /\ v_pc' = [v_pc EXCEPT ![t] = "Insert"]
                     /\ UNCHANGED <<v_plans, v_fifo, v_ret>>

\* invariants (C17)
Bounded == Cardinality(DOMAIN v_plans) <= Cap
Bijection == Range(v_fifo) = DOMAIN v_plans /\ Len(v_fifo) = Cardinality(DOMAIN v_plans)
RightPlanCached == \A k \in DOMAIN v_plans : v_plans[k] = k
\* transparency: a finished request returned exactly the plan a cache-less build would use
Transparent == \A t \in Threads : v_pc[t] = "Idle" /\ v_ret[t] # 0 => v_ret[t] = v_key[t]
=============================================================================
