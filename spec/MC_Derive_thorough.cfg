SPECIFICATION Spec
CONSTANTS
  Ps = {1, 2, 7, 8, 9, 63, 64, 65, 71, 72, 100, 500, 512, 1024, 1280, 1500, 4096}
  KpSel = {10, 12, 18, 101, 1002, 8837, 55289, 55843, 56403}
  Mults = {1, 2, 3, 128, 254, 255}
INVARIANTS TMaximal ZMinimal NMinimal Constructible MonotoneInWS Emit
CHECK_DEADLOCK FALSE
