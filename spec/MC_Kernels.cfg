SPECIFICATION Spec
INVARIANTS Closed Algebra
PROPERTY Frame
CHECK_DEADLOCK FALSE
