SPECIFICATION Spec
CONSTANTS ScanRows = {1, 9, 23}
  ScanChunks = 48
  ScanChunkSize = 5000
INVARIANTS ParamsConsistent TablesWellFormed TuplesInRange WrapSolved EdgeInRange Emit
CHECK_DEADLOCK FALSE
