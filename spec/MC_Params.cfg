SPECIFICATION Spec
CONSTANTS ScanRows = {1, 9, 23}
  ScanChunks = 48
  ScanChunkSize = 5000
  DeepRows = {9}  DeepChunks = 1600
INVARIANTS ParamsConsistent TablesWellFormed TuplesInRange WrapSolved EdgeInRange Emit
CHECK_DEADLOCK FALSE
