SPECIFICATION Spec
INVARIANTS ParamsConsistent TablesWellFormed TuplesInRange WrapSolved Emit
CHECK_DEADLOCK FALSE
