SPECIFICATION Spec
CONSTANTS Cases <- CasesQuick
CHECK_DEADLOCK FALSE
