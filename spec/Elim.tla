---------------------------- MODULE Elim ----------------------------
(***************************************************************************)
(* The solver as an elimination state machine (what the five phases of     *)
(* inactivation decoding amount to on the symbols): the state is the       *)
(* coefficient matrix v_mat of the linear system, indexed by the *physical* *)
(* position of the symbol (row r of v_mat belongs to D[r]); the only steps  *)
(* are the three elementary row operations the solver records as deferred   *)
(* symbol operations.  Each is invertible, so the solution set of           *)
(*           v_mat . C = D                                                  *)
(* never changes (MC_Elim checks that on small systems).  A recorded        *)
(* operation vector with final reorder mapping `order` solves the system    *)
(* iff, applied to the RFC constraint matrix, it leaves row order[j] equal  *)
(* to the unit vector e_j for every intermediate symbol j: then C[j] is the *)
(* symbol at physical position order[j], whatever the data and symbol size.*)
(***************************************************************************)
EXTENDS GF256, Sequences, Naturals
VARIABLE v_mat          \* sequence of rows (1-based: row r+1 is physical position r); a row is 1..L -> octet

RowAdd(d, s) == v_mat' = [v_mat EXCEPT ![d + 1] = [c \in DOMAIN v_mat[d + 1] |-> v_mat[d + 1][c] ^^ v_mat[s + 1][c]]]
RowMul(d, beta) == v_mat' = [v_mat EXCEPT ![d + 1] = [c \in DOMAIN v_mat[d + 1] |-> Mul(beta, v_mat[d + 1][c])]]
RowFma(d, s, beta) == v_mat' = [v_mat EXCEPT ![d + 1] = [c \in DOMAIN v_mat[d + 1] |-> v_mat[d + 1][c] ^^ Mul(beta, v_mat[s + 1][c])]]

\* admissibility of a recorded operation: distinct rows, non-zero scalar for a multiplication (else not invertible)
OpOk(op, n) == /\ op[2] < n /\ op[3] < n
               /\ CASE op[1] = 1 -> op[2] # op[3]
                    [] op[1] = 2 -> op[4] # 0
                    [] op[1] = 3 -> op[2] # op[3]
Apply(op) == CASE op[1] = 1 -> RowAdd(op[2], op[3])
               [] op[1] = 2 -> RowMul(op[2], op[4])
               [] op[1] = 3 -> RowFma(op[2], op[3], op[4])

Unit(j, L) == [c \in 1..L |-> IF c = j + 1 THEN 1 ELSE 0]
Solved(order, L) == /\ Len(order) = L
                    /\ \A j \in 0..(L - 1) : v_mat[order[j + 1] + 1] = Unit(j, L)
=============================================================================
