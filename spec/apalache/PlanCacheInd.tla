---------------------------- MODULE PlanCacheInd ----------------------------
(* Inductive invariant of the plan-cache specification, for Apalache (unbounded number of requests / steps: the
   invariant is shown to hold initially and to be preserved by every action from ANY state satisfying it, for up to
   3 threads, capacity up to 4 and caches of up to 4 keys drawn from all integers >= 1).  This module restates
   PlanCache.tla's actions verbatim with type annotations (Apalache needs them; TLC ignores them) - the trace and
   model-checking modules keep using PlanCache.tla; `tools/apalache_plancache.sh` diffs the action bodies. *)
EXTENDS Integers, Sequences, FiniteSets, Apalache
CONSTANTS
  \* @type: Set(Int);
  Threads,
  \* @type: Int;
  Cap
VARIABLES
  \* @type: Int -> Str;
  v_pc,
  \* @type: Int -> Int;
  v_key,
  \* @type: Int -> Int;
  v_plans,
  \* @type: Seq(Int);
  v_fifo,
  \* @type: Int -> Int;
  v_ret
\* @type: Seq(Int) => Set(Int);
Range(sq) == {sq[k] : k \in DOMAIN sq}

Start(t, k) == /\ v_pc[t] = "Idle"
               /\ v_key' = [v_key EXCEPT ![t] = k] /\ v_pc' = [v_pc EXCEPT ![t] = "Lookup"]
               /\ UNCHANGED <<v_plans, v_fifo, v_ret>>
LookupHit(t) == /\ v_pc[t] = "Lookup" /\ v_key[t] \in DOMAIN v_plans
                /\ v_ret' = [v_ret EXCEPT ![t] = v_plans[v_key[t]]] /\ v_pc' = [v_pc EXCEPT ![t] = "Idle"]
                /\ UNCHANGED <<v_key, v_plans, v_fifo>>
LookupMiss(t) == /\ v_pc[t] = "Lookup" /\ v_key[t] \notin DOMAIN v_plans
                 /\ v_pc' = [v_pc EXCEPT ![t] = "Generate"]
                 /\ UNCHANGED <<v_key, v_plans, v_fifo, v_ret>>
Generate(t) == /\ v_pc[t] = "Generate" /\ v_pc' = [v_pc EXCEPT ![t] = "Insert"]
               /\ UNCHANGED <<v_key, v_plans, v_fifo, v_ret>>
InsertRace(t) == /\ v_pc[t] = "Insert" /\ v_key[t] \in DOMAIN v_plans
                 /\ v_ret' = [v_ret EXCEPT ![t] = v_plans[v_key[t]]] /\ v_pc' = [v_pc EXCEPT ![t] = "Idle"]
                 /\ UNCHANGED <<v_key, v_plans, v_fifo>>
InsertNew(t) ==
  /\ v_pc[t] = "Insert" /\ v_key[t] \notin DOMAIN v_plans
  /\ LET k == v_key[t]
         evict == Cardinality(DOMAIN v_plans) >= Cap /\ Len(v_fifo) > 0
         baseDom == IF evict THEN DOMAIN v_plans \ {Head(v_fifo)} ELSE DOMAIN v_plans
     IN /\ v_plans' = [x \in baseDom \cup {k} |-> IF x = k THEN k ELSE v_plans[x]]
        /\ v_fifo' = Append(IF evict THEN Tail(v_fifo) ELSE v_fifo, k)
  /\ v_ret' = [v_ret EXCEPT ![t] = v_key[t]] /\ v_pc' = [v_pc EXCEPT ![t] = "Idle"]
  /\ UNCHANGED v_key

Next == \E t \in Threads :
          \/ \E k \in 1..1000000 : Start(t, k)
          \/ LookupHit(t) \/ LookupMiss(t) \/ Generate(t) \/ InsertRace(t) \/ InsertNew(t)
Init == /\ v_pc = [t \in Threads |-> "Idle"] /\ v_key = [t \in Threads |-> 0] /\ v_ret = [t \in Threads |-> 0]
        /\ v_plans = [k \in {} |-> 0] /\ v_fifo = <<>>

ConstInit == Threads = {1, 2, 3} /\ Cap \in 1..4

NoDup == \A a, b \in DOMAIN v_fifo : v_fifo[a] = v_fifo[b] => a = b
TypeOK == /\ DOMAIN v_pc = Threads /\ DOMAIN v_key = Threads /\ DOMAIN v_ret = Threads
          /\ \A t \in Threads : v_pc[t] \in {"Idle", "Lookup", "Generate", "Insert"}
          /\ \A t \in Threads : v_key[t] >= 0 /\ (v_pc[t] # "Idle" => v_key[t] >= 1)
Bounded == Cardinality(DOMAIN v_plans) <= Cap
Bijection == Range(v_fifo) = DOMAIN v_plans /\ NoDup
RightPlanCached == \A k \in DOMAIN v_plans : v_plans[k] = k /\ k >= 1
Transparent == \A t \in Threads : v_pc[t] = "Idle" /\ v_ret[t] # 0 => v_ret[t] = v_key[t]
IndInv == TypeOK /\ Bounded /\ Bijection /\ RightPlanCached /\ Transparent

\* arbitrary state satisfying the invariant (Gen bounds the sizes of the data structures)
IndInit == /\ v_pc = Gen(3) /\ v_key = Gen(3) /\ v_ret = Gen(3) /\ v_plans = Gen(4) /\ v_fifo = Gen(4)
           /\ IndInv
\* non-vacuity witnesses (expected to be VIOLATED from IndInit at length 0: such states satisfy IndInv)
WitnessFullCache == ~(Cardinality(DOMAIN v_plans) = Cap /\ Cap = 4 /\ v_pc[1] = "Insert" /\ v_pc[2] = "Insert" /\ v_key[1] = v_key[2])
\* negative control: the insert step WITHOUT the second look-up (seed C17b's mistake) is not invariant-preserving
InsertNoRecheck(t) ==
  /\ v_pc[t] = "Insert"
  /\ LET k == v_key[t]
         evict == Cardinality(DOMAIN v_plans) >= Cap /\ Len(v_fifo) > 0
         baseDom == IF evict THEN DOMAIN v_plans \ {Head(v_fifo)} ELSE DOMAIN v_plans
     IN /\ v_plans' = [x \in baseDom \cup {k} |-> IF x = k THEN k ELSE v_plans[x]]
        /\ v_fifo' = Append(IF evict THEN Tail(v_fifo) ELSE v_fifo, k)
  /\ v_ret' = [v_ret EXCEPT ![t] = v_key[t]] /\ v_pc' = [v_pc EXCEPT ![t] = "Idle"]
  /\ UNCHANGED v_key
NextBuggy == \E t \in Threads : InsertNoRecheck(t) \/ LookupMiss(t) \/ Generate(t)
=============================================================================
