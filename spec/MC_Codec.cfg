SPECIFICATION Spec
CONSTANTS Univ <- UnivQuick  EmitHist = FALSE  HistLen = 0
INVARIANTS SetDetermined CompleteWhenAllSource NeedK SameSetsSameAnswer
PROPERTY Stable
CHECK_DEADLOCK FALSE
