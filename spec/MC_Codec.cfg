SPECIFICATION Spec
CONSTANT Univ <- UnivQuick
INVARIANTS SetDetermined CompleteWhenAllSource NeedK SameSetsSameAnswer
PROPERTY Stable
CHECK_DEADLOCK FALSE
