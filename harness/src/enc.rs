//! C04 / C06: dump source blocks, packets and intermediate symbols of block encoders built by every route.
use crate::util::{Opts, Trace, catch};
use rand::{Rng, SeedableRng, rngs::StdRng};
use raptorq::{ObjectTransmissionInformation, SourceBlockEncoder, SourceBlockEncodingPlan};
use serde_json::{Value, json};

pub fn build(route: &str, cfg: &ObjectTransmissionInformation, data: &[u8], k: usize) -> Result<Option<SourceBlockEncoder>, String> {
    let cfg = *cfg;
    let data = data.to_vec();
    let route = route.to_string();
    catch(move || match route.as_str() {
        "new" => Some(SourceBlockEncoder::new(0, &cfg, &data)),
        "plan" => {
            let plan = SourceBlockEncodingPlan::generate(k as u16);
            Some(SourceBlockEncoder::with_encoding_plan(0, &cfg, &data, &plan))
        }
        "dd" => SourceBlockEncoder::verif_new_with(0, &cfg, &data, u32::MAX, false),
        "sd" => SourceBlockEncoder::verif_new_with(0, &cfg, &data, 0, false),
        "dp" => SourceBlockEncoder::verif_new_with(0, &cfg, &data, u32::MAX, true),
        "sp" => SourceBlockEncoder::verif_new_with(0, &cfg, &data, 0, true),
        // the block as the SECOND block of a two-block object built by Encoder::new (first block: k+1 symbols, so that the
        // two blocks have different K' whenever k is a Table 2 value): plans shared between the blocks of an object
        "obj" => {
            let t = cfg.symbol_size() as usize;
            let mut obj: Vec<u8> = (0..(k + 1) * t).map(|i| (i * 37 + 11) as u8).collect();
            obj.extend_from_slice(&data);
            let oti = ObjectTransmissionInformation::new(obj.len() as u64, t as u16, 2, 1, 1);
            let e = raptorq::Encoder::new(&obj, oti);
            Some(e.get_block_encoders()[1].clone())
        }
        other => panic!("unknown route {other}"),
    })
}

pub fn pattern_data(seed: u64, k: usize, t: usize) -> Vec<u8> {
    let mut rng = StdRng::seed_from_u64(seed ^ ((k as u64) << 20) ^ (t as u64));
    // one block in three carries structured symbols (zero, constant, periodic, repeated) instead of random bytes
    if (seed ^ k as u64 ^ t as u64) % 3 == 0 {
        return crate::util::structured(&mut rng, k, t);
    }
    (0..k * t).map(|_| rng.random()).collect()
}

/// jobs: "k:t:route:mode;..."  mode = full (spec solves) | cert (intermediate symbols are dumped and certified)
pub fn run(o: &Opts) {
    crate::util::quiet_panics();
    let mut tr = Trace::create(&o.str("out", "enc.ndjson"));
    let seed = o.u64("seed", 1);
    let nrep = o.usize("nrep", 13);
    let nrand = o.usize("nrand", 3);
    tr.emit(json!({"ev":"meta","property":o.str("property","C04"),"seed":seed}));
    let jobs = o.str("jobs", "10:1:new:full");
    let mut rng = StdRng::seed_from_u64(seed.wrapping_mul(0x9E3779B97F4A7C15));
    for job in jobs.split(';').filter(|s| !s.is_empty()) {
        let f: Vec<&str> = job.split(':').collect();
        let k: usize = f[0].parse().unwrap();
        let t: usize = f[1].parse().unwrap();
        let route = f[2];
        let mode = f[3];
        let data = pattern_data(seed, k, t);
        let cfg = ObjectTransmissionInformation::new(0, t as u16, 0, 1, 1);
        let enc = build(route, &cfg, &data, k);
        let mut ev = json!({"ev":"block","k":k,"t":t,"route":route,"mode":mode,"sbn": if route == "obj" { 1 } else { 0 }});
        match enc {
            Err(msg) => {
                ev["res"] = json!("panic");
                ev["msg"] = json!(msg);
            }
            Ok(None) => {
                ev["res"] = json!("none");
            }
            Ok(Some(enc)) => {
                ev["res"] = json!("ok");
                ev["data"] = json!(data);
                let pk = |p: &raptorq::EncodingPacket| -> Value {
                    json!([p.payload_id().source_block_number(), p.payload_id().encoding_symbol_id(), p.data()])
                };
                let src: Vec<Value> = enc.source_packets().iter().map(pk).collect();
                ev["src"] = json!(src);
                let mut rep: Vec<Value> = vec![];
                // a window K..K+nrep-1, single random 24-bit ESIs, and the last producible ESI
                let window = catch(std::panic::AssertUnwindSafe(|| enc.repair_packets(0, nrep as u32)));
                match window {
                    Ok(w) => rep.extend(w.iter().map(pk)),
                    Err(m) => {
                        ev["res"] = json!("panic");
                        ev["msg"] = json!(m);
                    }
                }
                let mut starts: Vec<u32> = (0..nrand).map(|_| rng.random_range(0..(1u32 << 24) - k as u32)).collect();
                starts.push((1u32 << 24) - 1 - k as u32);
                starts.push(65536 - k as u32);
                for s in starts {
                    match catch(std::panic::AssertUnwindSafe(|| enc.repair_packets(s, 1))) {
                        Ok(w) => rep.extend(w.iter().map(pk)),
                        Err(m) => {
                            ev["res"] = json!("panic");
                            ev["msg"] = json!(format!("repair_packets({s},1): {m}"));
                        }
                    }
                }
                ev["rep"] = json!(rep);
                if mode == "cert" || mode == "light" {
                    ev["c"] = json!(enc.verif_intermediate_symbols());
                }
            }
        }
        tr.emit(ev);
    }
    tr.emit(json!({"ev":"end"}));
    println!("events={}", tr.finish());
}
