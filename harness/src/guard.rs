//! C12: a global allocator that, when enabled through the environment variable RQV_GUARD, gives every allocation
//! its own mapping placed flush against an inaccessible page (RQV_GUARD=1: the end of the buffer touches the guard
//! page, up to alignment slack; RQV_GUARD=2: the start does), so that a read or write that leaves the allocation
//! by even one byte faults (SIGSEGV) instead of going unnoticed.  The mode is read with getenv at the very first
//! allocation, so all allocations of a process are treated alike.
use std::alloc::{GlobalAlloc, Layout, System};
use std::sync::atomic::{AtomicU8, Ordering};

pub struct GuardAlloc;
static MODE: AtomicU8 = AtomicU8::new(255);
const PAGE: usize = 4096;

fn mode() -> u8 {
    let m = MODE.load(Ordering::Relaxed);
    if m != 255 {
        return m;
    }
    let v = unsafe { libc::getenv(c"RQV_GUARD".as_ptr()) };
    let m = if v.is_null() {
        0
    } else {
        match unsafe { *v } as u8 {
            b'1' => 1,
            b'2' => 2,
            _ => 0,
        }
    };
    MODE.store(m, Ordering::Relaxed);
    m
}

pub fn active_mode() -> u8 {
    mode()
}

unsafe impl GlobalAlloc for GuardAlloc {
    unsafe fn alloc(&self, l: Layout) -> *mut u8 {
        let m = mode();
        if m == 0 || l.align() > PAGE {
            return unsafe { System.alloc(l) };
        }
        let size = l.size().max(1);
        let data_pages = size.div_ceil(PAGE);
        let total = (data_pages + 2) * PAGE;
        unsafe {
            let p = libc::mmap(std::ptr::null_mut(), total, libc::PROT_READ | libc::PROT_WRITE,
                               libc::MAP_PRIVATE | libc::MAP_ANONYMOUS, -1, 0) as *mut u8;
            if p as isize == -1 {
                return std::ptr::null_mut();
            }
            libc::mprotect(p as *mut _, PAGE, libc::PROT_NONE);
            libc::mprotect(p.add((data_pages + 1) * PAGE) as *mut _, PAGE, libc::PROT_NONE);
            let base = p.add(PAGE);
            if m == 1 {
                let off = (data_pages * PAGE - size) & !(l.align() - 1);
                base.add(off)
            } else {
                base
            }
        }
    }

    // fresh anonymous mappings are zero already (and the system allocator gets huge zeroed blocks lazily): no memset
    unsafe fn alloc_zeroed(&self, l: Layout) -> *mut u8 {
        let m = mode();
        if m == 0 || l.align() > PAGE {
            return unsafe { System.alloc_zeroed(l) };
        }
        unsafe { self.alloc(l) }
    }

    unsafe fn dealloc(&self, ptr: *mut u8, l: Layout) {
        let m = mode();
        if m == 0 || l.align() > PAGE {
            return unsafe { System.dealloc(ptr, l) };
        }
        let size = l.size().max(1);
        let data_pages = size.div_ceil(PAGE);
        let base = ((ptr as usize) & !(PAGE - 1)) - PAGE;
        unsafe {
            libc::munmap(base as *mut _, (data_pages + 2) * PAGE);
        }
    }
}
