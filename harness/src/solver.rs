//! Observed runs of the five-phase solver: operations, permutations and counters at every first-phase step and
//! phase end (hook), for encoding systems and for decoding systems of random received sets, on both back-ends and on
//! the GF(2)-only route.  Validated by spec/Trace_Solver.tla against Solver.tla / Elim.tla.
use crate::util::{Opts, Trace, catch};
use rand::{Rng, SeedableRng, rngs::StdRng, seq::SliceRandom};
use raptorq::verif as v;
use raptorq::{DenseBinaryMatrix, IntermediateSymbolDecoder, SparseBinaryMatrix, SymbolSlab, generate_constraint_matrix};
use serde_json::{Value, json};
use std::panic::AssertUnwindSafe;

fn observe(k: usize, isis: &[u32], sparse: bool, no_hdpc: bool) -> Result<Option<Value>, String> {
    let (s, h) = (v::num_ldpc_symbols(k as u32) as usize, v::num_hdpc_symbols(k as u32) as usize);
    let isis2 = isis.to_vec();
    v::solver_observe(true);
    let r = catch(AssertUnwindSafe(|| {
        let rows = if no_hdpc { s + isis2.len() } else { s + h + isis2.len() };
        let d = SymbolSlab::with_zeros(rows, 1);
        match (no_hdpc, sparse) {
            (true, true) => IntermediateSymbolDecoder::new_no_hdpc(v::generate_constraint_matrix_no_hdpc::<SparseBinaryMatrix>(k as u32, &isis2), d, k as u32).execute(),
            (true, false) => IntermediateSymbolDecoder::new_no_hdpc(v::generate_constraint_matrix_no_hdpc::<DenseBinaryMatrix>(k as u32, &isis2), d, k as u32).execute(),
            (false, true) => {
                let (a, hd) = generate_constraint_matrix::<SparseBinaryMatrix>(k as u32, &isis2);
                IntermediateSymbolDecoder::new(a, hd, d, k as u32).execute()
            }
            (false, false) => {
                let (a, hd) = generate_constraint_matrix::<DenseBinaryMatrix>(k as u32, &isis2);
                IntermediateSymbolDecoder::new(a, hd, d, k as u32).execute()
            }
        }
    }));
    let marks = v::solver_take_marks();
    v::solver_observe(false);
    match r {
        Err(m) => Err(m),
        Ok((Some(_), Some(ops))) => {
            let (flat, order) = v::symbol_ops_flat(&ops);
            Ok(Some(json!({
                "res": "ok",
                "ops": flat.iter().map(|o| json!([o.0, o.1, o.2, o.3])).collect::<Vec<_>>(),
                "order": order,
                "marks": marks.iter().map(|m| json!({"ph": m.phase, "i": m.i, "u": m.u, "n": m.ops, "c": m.c, "d": m.d})).collect::<Vec<_>>(),
            })))
        }
        Ok(_) => Ok(None), // singular: legitimate for a random received set (decided by C02)
    }
}

pub fn run(o: &Opts) {
    crate::util::quiet_panics();
    let mut tr = Trace::create(&o.str("out", "solver.ndjson"));
    let seed = o.u64("seed", 1);
    let mut rng = StdRng::seed_from_u64(seed);
    let decodes = o.usize("decodes", 2);
    tr.emit(json!({"ev":"meta","property":o.str("property","C02"),"seed":seed}));
    for job in o.str("jobs", "10").split(';').filter(|s| !s.is_empty()) {
        let k: usize = job.parse().unwrap();
        let kp = v::extended_source_block_symbols(k as u32) as usize;
        let (s, h) = (v::num_ldpc_symbols(k as u32) as usize, v::num_hdpc_symbols(k as u32) as usize);
        let mut systems: Vec<(String, Vec<u32>)> = vec![("encode".into(), (0..kp as u32).collect())];
        for di in 0..decodes {
            let nsrc = rng.random_range(0..k);
            let overhead = if di % 2 == 0 { rng.random_range(0..3) } else { h + rng.random_range(0..3) };
            let mut src: Vec<u32> = (0..k as u32).collect();
            src.shuffle(&mut rng);
            let mut isis: Vec<u32> = src[..nsrc].to_vec();
            isis.sort();
            isis.extend(k as u32..kp as u32);
            let mut rep: Vec<u32> = vec![];
            while rep.len() < k - nsrc + overhead {
                let e = if rng.random_bool(0.5) { kp as u32 + rng.random_range(0..(k as u32 + 40)) } else { rng.random_range(kp as u32..(1 << 24)) };
                if !rep.contains(&e) {
                    rep.push(e);
                }
            }
            isis.extend(rep);
            systems.push((format!("decode{di}"), isis));
        }
        for (name, isis) in systems {
            for (route, sparse, no_hdpc) in [("dense", false, false), ("sparse", true, false), ("gf2-dense", false, true), ("gf2-sparse", true, true)] {
                if no_hdpc && isis.len() < kp + h {
                    continue;
                }
                let mut ev = json!({"ev":"solve","k":k,"route":format!("{name}-{route}"),"hdpc":!no_hdpc,"isis":isis});
                let _ = s;
                match observe(k, &isis, sparse, no_hdpc) {
                    Ok(Some(body)) => {
                        for (kk, vv) in body.as_object().unwrap() {
                            ev[kk] = vv.clone();
                        }
                        tr.emit(ev);
                    }
                    Ok(None) => {}
                    Err(m) => {
                        ev["res"] = json!("panic");
                        ev["msg"] = json!(m);
                        ev["ops"] = json!([]);
                        ev["order"] = json!([]);
                        ev["marks"] = json!([]);
                        tr.emit(ev);
                    }
                }
            }
        }
    }
    tr.emit(json!({"ev":"end"}));
    println!("events={}", tr.finish());
}
