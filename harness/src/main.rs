//! Conformance driver: drives the real raptorq crate (built from /repo's working tree with
#![allow(dead_code)]
//! `--cfg raptorq_verif`) and writes ndjson traces that TLC validates against the TLA+ specification,
//! or replays TLC-generated behaviours on the real objects.
mod codec;
mod enc;
mod gf256;
mod guard;
mod kernels;
mod linear;
mod matrix;
mod obj;
mod overhead;
mod params;
mod plans;
mod plancache;
mod scn;
mod slabobs;
mod solver;
mod stream;
mod util;

#[global_allocator]
static ALLOC: guard::GuardAlloc = guard::GuardAlloc;

fn main() {
    let args: Vec<String> = std::env::args().collect();
    if args.len() < 2 {
        eprintln!("usage: drv <command> [--key value]...");
        std::process::exit(2);
    }
    let opts = util::Opts::parse(&args[2..]);
    util::quiet_panics();
    let r = std::panic::catch_unwind(|| dispatch(&args[1], &opts));
    if r.is_err() {
        // a panic escaped a logged call: data about the code under test if it was raised inside /repo, a driver bug otherwise
        let last = util::LAST_PANIC.lock().map(|g| g.clone()).unwrap_or_default();
        if last.starts_with("/repo/") {
            println!("PANIC-IN-CODE-UNDER-TEST {last}");
            std::process::exit(3);
        }
        println!("DRIVER-BUG {last}");
        std::process::exit(4);
    }
}

fn dispatch(cmd: &str, opts: &util::Opts) {
    match cmd {
        "gf256" => gf256::run(opts),
        "enc" => enc::run(opts),
        "objreplay" => obj::replay(opts),
        "objlog" => obj::log(opts),
        "codec-object" => codec::run_object(opts),
        "codec-block" => codec::run_block(opts),
        "codec-replay" => codec::replay(opts),
        "findfail" => codec::find_fail(opts),
        "overhead" => overhead::run(opts),
        "stream" => stream::run(opts),
        "kernels" => kernels::run(opts),
        "slabobs" => slabobs::run(opts),
        "linear" => linear::run(opts),
        "plans" => plans::run(opts),
        "solver" => solver::run(opts),
        "matrix-replay" => matrix::replay(opts),
        "plancache-replay" => plancache::replay(opts),
        "plancache-log" => plancache::log(opts),
        "scenarios" => scn::run_all(&opts.str("out", "scn.ndjson"), opts.u64("seed", 1), &opts.str("profile", "release"), opts.thorough()),
        // self-test of the guard allocator: must die with SIGSEGV under RQV_GUARD=1 / 2 respectively
        "guardtest" => {
            let v = vec![7u8; 41];
            let x = match opts.str("what", "overread").as_str() {
                "overread" => unsafe { std::ptr::read_volatile(v.as_ptr().add(41)) },
                "underread" => unsafe { std::ptr::read_volatile(v.as_ptr().sub(1)) },
                _ => v[0],
            };
            println!("survived mode={} value={}", guard::active_mode(), x);
        }
        "paramlog" => params::log(opts),
        "wrapreplay" => params::replay(opts),
        other => {
            eprintln!("unknown command {other}");
            std::process::exit(2);
        }
    }
}
