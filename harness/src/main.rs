//! Conformance driver: drives the real raptorq crate (built from /repo's working tree with
#![allow(dead_code)]
//! `--cfg raptorq_verif`) and writes ndjson traces that TLC validates against the TLA+ specification,
//! or replays TLC-generated behaviours on the real objects.
mod codec;
mod enc;
mod gf256;
mod guard;
mod kernels;
mod obj;
mod overhead;
mod params;
mod slabobs;
mod stream;
mod util;

#[global_allocator]
static ALLOC: guard::GuardAlloc = guard::GuardAlloc;

fn main() {
    let args: Vec<String> = std::env::args().collect();
    if args.len() < 2 {
        eprintln!("usage: drv <command> [--key value]...");
        std::process::exit(2);
    }
    let opts = util::Opts::parse(&args[2..]);
    match args[1].as_str() {
        "gf256" => gf256::run(&opts),
        "enc" => enc::run(&opts),
        "objreplay" => obj::replay(&opts),
        "objlog" => obj::log(&opts),
        "codec-object" => codec::run_object(&opts),
        "codec-block" => codec::run_block(&opts),
        "findfail" => codec::find_fail(&opts),
        "overhead" => overhead::run(&opts),
        "stream" => stream::run(&opts),
        "kernels" => kernels::run(&opts),
        "slabobs" => slabobs::run(&opts),
        // self-test of the guard allocator: must die with SIGSEGV under RQV_GUARD=1 / 2 respectively
        "guardtest" => {
            let v = vec![7u8; 41];
            let x = match opts.str("what", "overread").as_str() {
                "overread" => unsafe { std::ptr::read_volatile(v.as_ptr().add(41)) },
                "underread" => unsafe { std::ptr::read_volatile(v.as_ptr().sub(1)) },
                _ => v[0],
            };
            println!("survived mode={} value={}", guard::active_mode(), x);
        }
        "paramlog" => params::log(&opts),
        "wrapreplay" => params::replay(&opts),
        other => {
            eprintln!("unknown command {other}");
            std::process::exit(2);
        }
    }
}
