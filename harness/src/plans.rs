//! Recorded operation vectors of the real solver: encoding plans per block size and back-end, and the operations of
//! individual decodes (standard and GF(2)-only route) for chosen received sets.  Validated by spec/Trace_Plan.tla.
use crate::util::{Opts, Trace, catch};
use rand::{Rng, SeedableRng, rngs::StdRng, seq::SliceRandom};
use raptorq::verif as v;
use raptorq::{DenseBinaryMatrix, IntermediateSymbolDecoder, SourceBlockEncodingPlan, SparseBinaryMatrix, SymbolSlab, generate_constraint_matrix};
use serde_json::{Value, json};
use std::panic::AssertUnwindSafe;

fn ops_json(flat: &[(u8, usize, usize, u8)]) -> Value {
    Value::Array(flat.iter().map(|o| json!([o.0, o.1, o.2, o.3])).collect())
}

/// jobs: "K;..." ; for each K: plans on both back-ends, and `decodes` decode systems on random received sets
pub fn run(o: &Opts) {
    crate::util::quiet_panics();
    let mut tr = Trace::create(&o.str("out", "plans.ndjson"));
    let seed = o.u64("seed", 1);
    let mut rng = StdRng::seed_from_u64(seed);
    let decodes = o.usize("decodes", 2);
    tr.emit(json!({"ev":"meta","property":o.str("property","C06"),"seed":seed}));
    for job in o.str("jobs", "10").split(';').filter(|s| !s.is_empty()) {
        let k: usize = job.parse().unwrap();
        let kp = v::extended_source_block_symbols(k as u32) as usize;
        let (s, h) = (v::num_ldpc_symbols(k as u32) as usize, v::num_hdpc_symbols(k as u32) as usize);
        let enc_isis: Vec<u32> = (0..kp as u32).collect();
        // encoding plans: the public generator, and both back-ends explicitly
        for (route, thr) in [("plan-default", None), ("plan-sparse", Some(0u32)), ("plan-dense", Some(u32::MAX))] {
            let r = catch(AssertUnwindSafe(|| match thr {
                None => Some(SourceBlockEncodingPlan::generate(k as u16)),
                Some(t) => SourceBlockEncodingPlan::verif_generate_with(k as u16, t),
            }));
            let mut ev = json!({"ev":"plan","k":k,"route":route,"hdpc":true,"isis":enc_isis});
            match r {
                Ok(Some(p)) => {
                    let (flat, order) = p.verif_ops_flat();
                    ev["res"] = json!("ok");
                    ev["ops"] = ops_json(&flat);
                    ev["order"] = json!(order);
                }
                Ok(None) => {
                    ev["res"] = json!("none");
                    ev["ops"] = json!([]);
                    ev["order"] = json!([]);
                }
                Err(m) => {
                    ev["res"] = json!("panic");
                    ev["msg"] = json!(m);
                    ev["ops"] = json!([]);
                    ev["order"] = json!([]);
                }
            }
            tr.emit(ev);
        }
        // decode systems: received sets with overhead 0..3 (standard route) and >= H (GF(2)-only route as well)
        for di in 0..decodes {
            let nsrc = rng.random_range(0..k);
            let overhead = if di % 2 == 0 { rng.random_range(0..3) } else { h + rng.random_range(0..3) };
            let mut src: Vec<u32> = (0..k as u32).collect();
            src.shuffle(&mut rng);
            let mut isis: Vec<u32> = src[..nsrc].to_vec();
            isis.sort();
            isis.extend(k as u32..kp as u32);
            let mut rep: Vec<u32> = vec![];
            while rep.len() < k - nsrc + overhead {
                let e = if rng.random_bool(0.5) { kp as u32 + rng.random_range(0..(k as u32 + 40)) } else { rng.random_range(kp as u32..(1 << 24)) };
                if !rep.contains(&e) {
                    rep.push(e);
                }
            }
            isis.extend(rep);
            for (route, sparse, no_hdpc) in [("decode-dense", false, false), ("decode-sparse", true, false), ("decode-gf2-dense", false, true), ("decode-gf2-sparse", true, true)] {
                if no_hdpc && s + isis.len() < kp + s + h {
                    continue;
                }
                let isis2 = isis.clone();
                let r = catch(AssertUnwindSafe(|| {
                    let rows = if no_hdpc { s + isis2.len() } else { s + h + isis2.len() };
                    let d = SymbolSlab::with_zeros(rows, 1);
                    if no_hdpc && sparse {
                        let a = v::generate_constraint_matrix_no_hdpc::<SparseBinaryMatrix>(k as u32, &isis2);
                        IntermediateSymbolDecoder::new_no_hdpc(a, d, k as u32).execute()
                    } else if no_hdpc {
                        let a = v::generate_constraint_matrix_no_hdpc::<DenseBinaryMatrix>(k as u32, &isis2);
                        IntermediateSymbolDecoder::new_no_hdpc(a, d, k as u32).execute()
                    } else if sparse {
                        let (a, hd) = generate_constraint_matrix::<SparseBinaryMatrix>(k as u32, &isis2);
                        IntermediateSymbolDecoder::new(a, hd, d, k as u32).execute()
                    } else {
                        let (a, hd) = generate_constraint_matrix::<DenseBinaryMatrix>(k as u32, &isis2);
                        IntermediateSymbolDecoder::new(a, hd, d, k as u32).execute()
                    }
                }));
                let mut ev = json!({"ev":"plan","k":k,"route":route,"hdpc":!no_hdpc,"isis":isis});
                match r {
                    Ok((Some(_), Some(ops))) => {
                        let (flat, order) = v::symbol_ops_flat(&ops);
                        ev["res"] = json!("ok");
                        ev["ops"] = ops_json(&flat);
                        ev["order"] = json!(order);
                        tr.emit(ev);
                    }
                    Ok(_) => {
                        // a singular system is legitimate here (random received set): nothing to certify; C02 decides those
                    }
                    Err(m) => {
                        ev["res"] = json!("panic");
                        ev["msg"] = json!(m);
                        ev["ops"] = json!([]);
                        ev["order"] = json!([]);
                        tr.emit(ev);
                    }
                }
            }
        }
    }
    tr.emit(json!({"ev":"end"}));
    println!("events={}", tr.finish());
}
