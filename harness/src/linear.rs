//! C09: packets for A, B, A xor B, c*A and for every byte column of A alone, for many symbol sizes T.
use crate::util::{Opts, Trace, catch, structured};
use rand::{Rng, SeedableRng, rngs::StdRng};
use raptorq::{EncodingPacket, ObjectTransmissionInformation as Oti, Octet, SourceBlockEncoder, SourceBlockEncodingPlan};
use serde_json::{Value, json};

fn packets(enc: &SourceBlockEncoder, k: usize, starts: &[u32]) -> Vec<EncodingPacket> {
    let mut v = enc.source_packets();
    for &s in starts {
        v.extend(enc.repair_packets(s, 1));
    }
    let _ = k;
    v
}

/// jobs "K:T;..."; route = new | plan
pub fn run(o: &Opts) {
    crate::util::quiet_panics();
    let mut tr = Trace::create(&o.str("out", "linear.ndjson"));
    let seed = o.u64("seed", 1);
    let mut rng = StdRng::seed_from_u64(seed);
    tr.emit(json!({"ev":"meta","property":"C09","seed":seed}));
    let mut plans: std::collections::HashMap<usize, SourceBlockEncodingPlan> = Default::default();
    for (ji, job) in o.str("jobs", "10:3").split(';').filter(|s| !s.is_empty()).enumerate() {
        let f: Vec<usize> = job.split(':').map(|x| x.parse().unwrap()).collect();
        let (k, t) = (f[0], f[1]);
        let use_plan = ji % 2 == 1;
        // data kinds alternate: random pair / structured pair / structured A with B equal to A on some symbols
        let kind = (ji / 2) % 3;
        let a: Vec<u8> = if kind == 0 { (0..k * t).map(|_| rng.random()).collect() } else { structured(&mut rng, k, t) };
        let mut b: Vec<u8> = if kind == 0 { (0..k * t).map(|_| rng.random()).collect() } else { structured(&mut rng, k, t) };
        if kind == 2 {
            for i in 0..k {
                if rng.random_range(0..3) == 0 {
                    b[i * t..(i + 1) * t].copy_from_slice(&a[i * t..(i + 1) * t]);
                }
            }
        }
        let c: u8 = rng.random_range(2..=255);
        let ab: Vec<u8> = a.iter().zip(b.iter()).map(|(x, y)| x ^ y).collect();
        // the scalar multiple is computed with the crate's own Octet; its correctness is C10
        let ca: Vec<u8> = a.iter().map(|&x| (Octet::new(c) * Octet::new(x)).byte()).collect();
        let mut starts: Vec<u32> = (0..5).collect();
        starts.push(rng.random_range(5..(1u32 << 24) - k as u32));
        starts.push(65536 - k as u32);
        starts.push((1u32 << 24) - 1 - k as u32);
        let cfg = Oti::new(0, t as u16, 0, 1, 1);
        let cfg1 = Oti::new(0, 1, 0, 1, 1);
        if use_plan && !plans.contains_key(&k) {
            plans.insert(k, SourceBlockEncodingPlan::generate(k as u16)); // one plan reused for every T
        }
        let plan = plans.get(&k);
        let build = |cfg: &Oti, d: &[u8]| -> SourceBlockEncoder {
            match (use_plan, plan) {
                (true, Some(p)) => SourceBlockEncoder::with_encoding_plan(0, cfg, d, p),
                _ => SourceBlockEncoder::new(0, cfg, d),
            }
        };
        // large symbols: keep a projection of the byte positions (both ends, around every multiple of 4096 and of 64 near the
        // start, and a random sample) - the relations are position-wise
        let pos: Option<Vec<usize>> = if t > 300 {
            let mut p: Vec<usize> = (0..16).chain(56..72).chain(t - 16..t).collect();
            for m in (4096..t).step_by(4096) {
                p.extend((m - 3)..(m + 3).min(t));
                p.extend((m + 60).min(t - 1)..(m + 68).min(t));
            }
            for _ in 0..24 {
                p.push(rng.random_range(0..t));
            }
            p.retain(|x| *x < t);
            p.sort();
            p.dedup();
            Some(p)
        } else {
            None
        };
        let posr = pos.clone();
        let r = catch(std::panic::AssertUnwindSafe(|| {
            let proj = |v: &[u8]| -> Vec<u8> { match &posr { Some(p) => p.iter().map(|&i| v[i]).collect(), None => v.to_vec() } };
            let pl = |d: &[u8], cfg: &Oti| -> Vec<Vec<u8>> { packets(&build(cfg, d), k, &starts).iter().map(|p| if cfg.symbol_size() as usize == t && t > 1 { proj(p.data()) } else { p.data().to_vec() }).collect() };
            let esis: Vec<u32> = packets(&build(&cfg, &a), k, &starts).iter().map(|p| p.payload_id().encoding_symbol_id()).collect();
            let which: Vec<usize> = match &posr { Some(p) => p.clone(), None => (0..t).collect() };
            let cols: Vec<Vec<u8>> = which.iter().map(|&j| j)
                .map(|j| {
                    let col: Vec<u8> = (0..k).map(|i| a[i * t + j]).collect();
                    pl(&col, &cfg1).iter().map(|p| p[0]).collect()
                })
                .collect();
            (esis, pl(&a, &cfg), pl(&b, &cfg), pl(&ab, &cfg), pl(&ca, &cfg), cols)
        }));
        let mut ev: Value = json!({"ev":"lin","k":k,"t":t,"c":c,"data":(["random","structured","structured+equal"][kind]),"route": if use_plan {"plan"} else {"new"}});
        if let Some(p) = &pos {
            ev["pos"] = json!(p);
        }
        match r {
            Ok((esis, pa, pb, pab, pca, cols)) => {
                ev["res"] = json!("ok");
                ev["esis"] = json!(esis);
                ev["pa"] = json!(pa);
                ev["pb"] = json!(pb);
                ev["pab"] = json!(pab);
                ev["pca"] = json!(pca);
                ev["cols"] = json!(cols);
            }
            Err(m) => {
                ev["res"] = json!("panic");
                ev["msg"] = json!(m);
            }
        }
        tr.emit(ev);
    }
    tr.emit(json!({"ev":"end"}));
    println!("events={}", tr.finish());
}
