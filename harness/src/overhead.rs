//! C03 (and the "None" direction of C02): decode uniformly random (K+h)-subsets of the 2^24 encoding symbols,
//! count failures, and log every failing ESI set so that TLC can certify it as a genuine rank deficiency.
use crate::util::{Opts, Trace};
use rand::{Rng, SeedableRng, rngs::StdRng, seq::SliceRandom};
use raptorq::{EncodingPacket, ObjectTransmissionInformation as Oti, SourceBlockDecoder, SourceBlockEncoder};
use serde_json::json;

struct Outcome {
    fails: Vec<Vec<u32>>,
    wrong: Vec<Vec<u32>>,
    trials: usize,
}

fn trial_batch(k: usize, h: usize, trials: usize, seed: u64, mix: u8) -> Outcome {
    let mut rng = StdRng::seed_from_u64(seed);
    let t = 2usize;
    let data: Vec<u8> = (0..k * t).map(|_| rng.random()).collect();
    let cfg = Oti::new((k * t) as u64, t as u16, 1, 1, 1);
    let enc = SourceBlockEncoder::new(0, &cfg, &data);
    let src = enc.source_packets();
    let mut out = Outcome { fails: vec![], wrong: vec![], trials };
    for trial in 0..trials {
        // mix 0: uniform over all 2^24 ESIs (so almost always repair only); 1: many source symbols; 2: repair only
        let nsrc = match mix {
            1 => rng.random_range(0..k),
            _ => 0,
        };
        let mut idx: Vec<usize> = (0..k).collect();
        idx.shuffle(&mut rng);
        let mut pkts: Vec<EncodingPacket> = idx[..nsrc].iter().map(|&i| src[i].clone()).collect();
        let mut esis: Vec<u32> = idx[..nsrc].iter().map(|&i| i as u32).collect();
        while pkts.len() < k + h {
            let e: u32 = if mix == 0 { rng.random_range(0..1 << 24) } else { rng.random_range(k as u32..1 << 24) };
            if esis.contains(&e) {
                continue;
            }
            if (e as usize) < k {
                pkts.push(src[e as usize].clone());
            } else {
                pkts.push(enc.repair_packets(e - k as u32, 1).pop().unwrap());
            }
            esis.push(e);
        }
        let mut dec = SourceBlockDecoder::new(0, &cfg, (k * t) as u64);
        // every other trial delivers the same K+h symbols one packet at a time, in random order (a streaming receiver): the set
        // counts as failed only if the decoder has not answered after the last packet - this exercises the state kept between
        // decoding attempts; a set whose prefix was answered is decodable, so the meaning of a logged failure is unchanged
        let answer = if trial % 2 == 1 {
            pkts.shuffle(&mut rng);
            let mut a = None;
            for p in pkts {
                a = dec.decode(std::iter::once(p));
                if a.is_some() {
                    break;
                }
            }
            a
        } else {
            dec.decode(pkts)
        };
        match answer {
            None => {
                esis.sort();
                out.fails.push(esis);
            }
            Some(d) => {
                if d != data {
                    esis.sort();
                    out.wrong.push(esis);
                }
            }
        }
    }
    out
}

pub fn run(o: &Opts) {
    let mut tr = Trace::create(&o.str("out", "overhead.ndjson"));
    let seed = o.u64("seed", 1);
    let threads = o.usize("threads", 14);
    let ks: Vec<usize> = o.str("ks", "10,12,19,26").split(',').map(|x| x.parse().unwrap()).collect();
    let ns = [o.usize("n0", 20000), o.usize("n1", 100000), o.usize("n2", 100000)];
    let maxlog = o.usize("maxlog", 400);
    tr.emit(json!({"ev":"meta","property":o.str("property","C03"),"seed":seed}));
    for &k in &ks {
        for h in 0..3usize {
            let total = ns[h] / ks.len();
            if total == 0 {
                continue;
            }
            for mix in 0..3u8 {
                let share = match mix { 0 => total / 2, _ => total / 4 };
                let per = share.div_ceil(threads);
                let outs: Vec<Outcome> = std::thread::scope(|s| {
                    let hs: Vec<_> = (0..threads)
                        .map(|i| s.spawn(move || trial_batch(k, h, per, seed ^ ((k as u64) << 32) ^ ((h as u64) << 24) ^ ((mix as u64) << 20) ^ i as u64, mix)))
                        .collect();
                    hs.into_iter().map(|h| h.join().unwrap()).collect()
                });
                let trials: usize = outs.iter().map(|o| o.trials).sum();
                let mut fails: Vec<Vec<u32>> = outs.iter().flat_map(|o| o.fails.iter().cloned()).collect();
                let wrong: Vec<Vec<u32>> = outs.iter().flat_map(|o| o.wrong.iter().cloned()).collect();
                let nfails = fails.len();
                fails.truncate(maxlog);
                tr.emit(json!({"ev":"stat","k":k,"h":h,"mix":mix,"trials":trials,"nfails":nfails,"fails":fails,"wrong":wrong}));
            }
        }
    }
    tr.emit(json!({"ev":"end"}));
    println!("events={}", tr.finish());
}
