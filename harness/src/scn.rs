//! C07: one seeded workload, run unchanged under every configuration (build profile, std / no_std, forced kernel
//! level, matrix back-end threshold, plan route).  Shared by harness/ (hooks available: feature "hooks") and
//! harness-nostd/ (public API only).  Output: one event per (configuration, scenario).
use raptorq::{Decoder, Encoder, EncodingPacket, ObjectTransmissionInformation as Oti, SourceBlockDecoder, SourceBlockEncoder,
              SourceBlockEncodingPlan};
use serde_json::{Value, json};
use std::io::Write;

/// tiny deterministic generator (no dependency on rand so that both harnesses produce identical inputs)
pub struct Lcg(pub u64);
impl Lcg {
    pub fn next(&mut self) -> u64 {
        self.0 = self.0.wrapping_mul(6364136223846793005).wrapping_add(1442695040888963407);
        self.0 >> 33
    }
    pub fn bytes(&mut self, n: usize) -> Vec<u8> {
        (0..n).map(|_| (self.next() >> 7) as u8).collect()
    }
}

fn fnv(data: &[u8], h: &mut u64) {
    for &b in data {
        *h ^= b as u64;
        *h = h.wrapping_mul(0x100000001b3);
    }
}

fn out_packets(pk: &[EncodingPacket]) -> Value {
    let total: usize = pk.iter().map(|p| p.data().len() + 4).sum();
    if total <= 1500 {
        json!({"res":"ok","packets": pk.iter().map(|p| json!([p.payload_id().source_block_number(), p.payload_id().encoding_symbol_id(), p.data()])).collect::<Vec<_>>()})
    } else {
        let mut h = 0xcbf29ce484222325u64;
        for p in pk {
            fnv(&p.serialize(), &mut h);
        }
        json!({"res":"ok","digest": format!("{h:016x}"), "count": pk.len(), "bytes": total})
    }
}

fn out_bytes(r: Option<Vec<u8>>) -> Value {
    match r {
        None => json!({"res":"none"}),
        Some(d) if d.len() <= 1500 => json!({"res":"some","data":d}),
        Some(d) => {
            let mut h = 0xcbf29ce484222325u64;
            fnv(&d, &mut h);
            json!({"res":"some","digest": format!("{h:016x}"), "len": d.len()})
        }
    }
}

fn catch<T, F: FnOnce() -> T>(f: F) -> Result<T, String> {
    std::panic::catch_unwind(std::panic::AssertUnwindSafe(f)).map_err(|e| {
        if let Some(s) = e.downcast_ref::<&str>() { s.to_string() } else if let Some(s) = e.downcast_ref::<String>() { s.clone() } else { "panic".into() }
    })
}

/// encoder routes: (name, threshold, via_plan); "new"/"plan" use the crate's fixed threshold
#[cfg(feature = "hooks")]
fn enc_routes() -> Vec<(&'static str, Option<(u32, bool)>)> {
    vec![("new", None), ("plan", None), ("thr0-direct", Some((0, false))), ("thr0-plan", Some((0, true))),
         ("thr250-direct", Some((250, false))), ("thr250-plan", Some((250, true))),
         ("thrinf-direct", Some((u32::MAX, false))), ("thrinf-plan", Some((u32::MAX, true)))]
}
#[cfg(not(feature = "hooks"))]
fn enc_routes() -> Vec<(&'static str, Option<(u32, bool)>)> {
    vec![("new", None), ("plan", None)]
}

fn build_encoder(route: &str, spec: Option<(u32, bool)>, cfg: &Oti, data: &[u8], k: usize) -> SourceBlockEncoder {
    match (route, spec) {
        ("new", _) => SourceBlockEncoder::new(0, cfg, data),
        ("plan", _) => SourceBlockEncoder::with_encoding_plan(0, cfg, data, &SourceBlockEncodingPlan::generate(k as u16)),
        #[cfg(feature = "hooks")]
        (_, Some((thr, via_plan))) => SourceBlockEncoder::verif_new_with(0, cfg, data, thr, via_plan).expect("encoder"),
        _ => unreachable!(),
    }
}

pub fn run_all(out: &str, seed: u64, profile: &str, thorough: bool) {
    std::panic::set_hook(Box::new(|_| {}));
    let mut w = std::io::BufWriter::new(std::fs::File::create(out).unwrap());
    let mut emit = |v: Value| {
        serde_json::to_writer(&mut w, &v).unwrap();
        w.write_all(b"\n").unwrap();
    };
    emit(json!({"ev":"meta","property":"C07","seed":seed,"profile":profile}));
    #[cfg(feature = "hooks")]
    let levels: Vec<(&str, Option<raptorq::verif::kernels::Level>)> = {
        use raptorq::verif::kernels::{Level, supported};
        let mut v: Vec<(&str, Option<Level>)> = vec![("auto", None)];
        for (n, l) in [("avx512", Level::Avx512), ("avx2", Level::Avx2), ("ssse3", Level::Ssse3), ("portable", Level::Portable), ("neon", Level::Neon)] {
            if supported(l) {
                v.push((n, Some(l)));
            } else {
                emit(json!({"ev":"skipped","level":n,"profile":profile}));
            }
        }
        v
    };
    #[cfg(not(feature = "hooks"))]
    let levels: Vec<(&str, Option<()>)> = vec![("auto", None)];

    // block scenarios: (K, T); odd symbol sizes included
    let mut blocks: Vec<(usize, usize)> = vec![(1, 1), (2, 3), (5, 7), (10, 4), (13, 64), (19, 65), (26, 1), (31, 33), (49, 8), (60, 16),
                                               (101, 5), (250, 3), (257, 9), (1000, 2),
                                               // two sizes whose Table 2 rows share the systematic index J (state shared between blocks of one process)
                                               (55, 2), (372, 1)];
    if thorough {
        blocks.extend([(3, 129), (7, 255), (40, 13), (75, 31), (127, 2), (500, 17)]);
        if profile.starts_with("release") {
            blocks.extend([(2000, 4), (5000, 1), (12000, 1), (20000, 1)]);
        }
    } else if profile.starts_with("release") {
        // one block whose sparse tail grows past two words per row (dense columns cross 128); builds without debug
        // assertions only - the solver's self-checks make this size take minutes otherwise
        blocks.push((5000, 1));
    }
    // object scenarios: (F, T, Z, N, Al)
    let objects: Vec<(u64, u16, u8, u16, u8)> = vec![(1, 1, 1, 1, 1), (37, 3, 2, 1, 1), (1030, 16, 3, 2, 4), (5000, 40, 2, 5, 8), (9001, 8, 4, 1, 8)];
    for (lname, level) in &levels {
        #[cfg(feature = "hooks")]
        raptorq::verif::kernels::force(level.unwrap_or(raptorq::verif::kernels::Level::Auto));
        #[cfg(not(feature = "hooks"))]
        let _ = level;
        // ---- encode scenarios
        for &(k, t) in &blocks {
            let mut g = Lcg(seed ^ ((k as u64) << 20) ^ t as u64);
            let data = g.bytes(k * t);
            let cfg = Oti::new(0, t as u16, 0, 1, 1);
            let far = (g.next() % ((1 << 24) - k as u64 - 3)) as u32;
            for (rname, spec) in enc_routes() {
                let sid = format!("enc:K={k}:T={t}");
                let res = catch(|| {
                    let enc = build_encoder(rname, spec, &cfg, &data, k);
                    let mut pk = enc.source_packets();
                    pk.extend(enc.repair_packets(0, 6));
                    pk.extend(enc.repair_packets(far, 2));
                    pk.extend(enc.repair_packets((1 << 24) - 1 - k as u32, 1));
                    pk
                });
                let outv = match res {
                    Ok(pk) => out_packets(&pk),
                    Err(m) => json!({"res":"panic","msg":m}),
                };
                emit(json!({"ev":"scn","cfg":format!("{profile}/{lname}/{rname}"),"sid":sid,"out":outv}));
            }
            // ---- decode scenarios for the same block: fixed ESI sets (incl. one too small and one repair-only)
            let prep = catch(|| {
                let enc = SourceBlockEncoder::new(0, &cfg, &data);
                let src = enc.source_packets();
                let rep = { let mut r = enc.repair_packets(0, (k + 4) as u32); r.extend(enc.repair_packets(far, 3)); r };
                (src, rep)
            });
            let (src, rep) = match prep {
                Ok(x) => x,
                Err(m) => {
                    emit(json!({"ev":"scn","cfg":format!("{profile}/{lname}/new"),"sid":format!("dec-prepare:K={k}:T={t}"),"out":{"res":"panic","msg":m}}));
                    continue;
                }
            };
            let sets: Vec<(&str, Vec<EncodingPacket>)> = vec![
                ("drop1", src.iter().skip(1).cloned().chain(rep.iter().take(1).cloned()).collect()),
                ("drophalf+2", src.iter().step_by(2).cloned().chain(rep.iter().take(k - k.div_ceil(2) + 2).cloned()).collect()),
                ("repaironly+1", rep.iter().take(k + 1).cloned().collect()),
                ("toofew", rep.iter().take(k.saturating_sub(1)).cloned().collect()),
                ("far", src.iter().take(k.saturating_sub(2)).cloned().chain(rep.iter().rev().take(3).cloned()).collect()),
            ];
            #[cfg(feature = "hooks")]
            let thresholds: Vec<(&str, Option<u32>)> = vec![("thr0", Some(0)), ("thr250", Some(250)), ("thrinf", Some(u32::MAX))];
            #[cfg(not(feature = "hooks"))]
            let thresholds: Vec<(&str, Option<u32>)> = vec![("default", None)];
            for (tname, thr) in &thresholds {
                for (sname, set) in &sets {
                    let res = catch(|| {
                        let mut dec = SourceBlockDecoder::new(0, &cfg, (k * t) as u64);
                        #[cfg(feature = "hooks")]
                        if let Some(x) = thr {
                            dec.set_sparse_threshold(*x);
                        }
                        #[cfg(not(feature = "hooks"))]
                        let _ = thr;
                        dec.decode(set.clone())
                    });
                    let outv = match res {
                        Ok(r) => out_bytes(r),
                        Err(m) => json!({"res":"panic","msg":m}),
                    };
                    emit(json!({"ev":"scn","cfg":format!("{profile}/{lname}/{tname}"),"sid":format!("dec:K={k}:T={t}:{sname}"),"out":outv}));
                }
            }
        }
        // ---- random received sets (only under automatic kernel selection): many small decodes whose outcomes are compared
        // between the build profiles - a branch that exists only with or only without debug assertions shows up here
        if *lname == "auto" {
            let nsets = if thorough { 3000 } else { 300 };
            for &k in &[5usize, 7, 10, 12, 13, 15, 20, 26] {
                let t = 2usize;
                let mut g = Lcg(seed ^ 0x5EED ^ ((k as u64) << 32));
                let data = g.bytes(k * t);
                let cfg = Oti::new(0, t as u16, 0, 1, 1);
                let items = catch(|| {
                    let enc = SourceBlockEncoder::new(0, &cfg, &data);
                    let src = enc.source_packets();
                    let rep = enc.repair_packets(0, 64);
                    let mut items: Vec<Value> = vec![];
                    for i in 0..nsets {
                        // lose 1..4 source symbols, take K + (i % 3) symbols in all, repair symbols from a random window
                        let lost = 1 + (g.next() % 4) as usize;
                        let mut keep: Vec<usize> = (0..k).collect();
                        for _ in 0..lost.min(k) {
                            let j = (g.next() % keep.len() as u64) as usize;
                            keep.remove(j);
                        }
                        let mut set: Vec<EncodingPacket> = keep.iter().map(|&j| src[j].clone()).collect();
                        let need = k + (i % 3) - set.len();
                        let mut pool: Vec<usize> = (0..64).collect();
                        for _ in 0..need {
                            let j = (g.next() % pool.len() as u64) as usize;
                            set.push(rep[pool.remove(j)].clone());
                        }
                        let r = std::panic::catch_unwind(std::panic::AssertUnwindSafe(|| SourceBlockDecoder::new(0, &cfg, (k * t) as u64).decode(set)));
                        items.push(match r {
                            Ok(Some(b)) => { let mut h = 0xcbf29ce484222325u64; fnv(&b, &mut h); json!(format!("{h:016x}")) }
                            Ok(None) => json!("none"),
                            Err(_) => json!("panic"),
                        });
                    }
                    items
                });
                let outv = match items {
                    Ok(v) => json!({"res":"multi","items":v}),
                    Err(m) => json!({"res":"panic","msg":m}),
                };
                emit(json!({"ev":"scn","cfg":format!("{profile}/{lname}/random-sets"),"sid":format!("decsets:K={k}:T={t}:n={nsets}"),"out":outv}));
            }
        }
        // ---- whole objects
        for &(f, t, z, n, al) in &objects {
            let mut g = Lcg(seed ^ (f << 8) ^ z as u64);
            let data = g.bytes(f as usize);
            let res = catch(|| {
                let oti = Oti::new(f, t, z, n, al);
                let enc = Encoder::new(&data, oti);
                let pk = enc.get_encoded_packets(3);
                let mut dec = Decoder::new(oti);
                let mut r = None;
                for p in pk.iter().rev().step_by(1).filter(|p| p.payload_id().encoding_symbol_id() != 0) {
                    r = dec.decode(p.clone());
                }
                (pk, r)
            });
            let (o1, o2) = match res {
                Ok((pk, r)) => (out_packets(&pk), out_bytes(r)),
                Err(m) => (json!({"res":"panic","msg":m.clone()}), json!({"res":"panic","msg":m})),
            };
            emit(json!({"ev":"scn","cfg":format!("{profile}/{lname}/object"),"sid":format!("objenc:F={f}:T={t}:Z={z}:N={n}"),"out":o1}));
            emit(json!({"ev":"scn","cfg":format!("{profile}/{lname}/object"),"sid":format!("objdec:F={f}:T={t}:Z={z}:N={n}"),"out":o2}));
        }
    }
    #[cfg(feature = "hooks")]
    raptorq::verif::kernels::force(raptorq::verif::kernels::Level::Auto);
    emit(json!({"ev":"end"}));
}
