//! C11 / C12: call every kernel variant the CPU supports (and the public dispatchers) on windows of one arena,
//! chaining the operations, and log each call with the resulting window; TLC replays the calls on Kernels.tla.
use crate::util::{Opts, Trace, catch};
use rand::{Rng, SeedableRng, rngs::StdRng};
use raptorq::Octet;
use raptorq::verif::kernels::{self as vk, Level};
use raptorq::verif::{self as v, BinaryOctetVec};
use serde_json::{Value, json};
use std::panic::AssertUnwindSafe;

pub const ARENA: usize = 64 + 64 + 300 + 64;
const BASE: usize = 64;

pub fn level_of(name: &str) -> Option<Level> {
    match name {
        "portable" => Some(Level::Portable),
        "ssse3" => Some(Level::Ssse3),
        "avx2" => Some(Level::Avx2),
        "avx512" => Some(Level::Avx512),
        "neon" => Some(Level::Neon),
        "dispatch" => None,
        other => panic!("unknown level {other}"),
    }
}

/// 64-byte aligned arena inside an over-allocated vector
struct Aligned {
    buf: Vec<u8>,
    start: usize,
    len: usize,
}
impl Aligned {
    fn new(len: usize) -> Aligned {
        let buf = vec![0u8; len + 64];
        let addr = buf.as_ptr() as usize;
        let start = (64 - addr % 64) % 64;
        Aligned { buf, start, len }
    }
    fn slice(&mut self) -> &mut [u8] {
        let s = self.start;
        &mut self.buf[s..s + self.len]
    }
}

fn fill(rng: &mut StdRng, pat: u8, out: &mut [u8]) {
    for (i, b) in out.iter_mut().enumerate() {
        *b = match pat {
            0 => rng.random(),
            1 => 0x00,
            2 => 0xFF,
            3 => 1u8 << (i % 8),
            _ => rng.random(),
        };
    }
}

pub fn run(o: &Opts) {
    crate::util::quiet_panics();
    let mut tr = Trace::create(&o.str("out", "kernels.ndjson"));
    let seed = o.u64("seed", 1);
    let mut rng = StdRng::seed_from_u64(seed);
    let kind = o.str("kind", "add");
    let level_name = o.str("level", "dispatch");
    let level = level_of(&level_name);
    let checked = o.str("profile", "release") == "checked";
    if let Some(l) = level {
        if !vk::supported(l) {
            println!("unsupported");
            return;
        }
    }
    tr.emit(json!({"ev":"meta","property":o.str("property","C11"),"seed":seed,"kind":kind,"level":level_name}));
    // --long: a second, larger arena for a few operations on long operands (beyond any internal block size)
    let long = o.flag("long");
    let arena_len = if long { 64 + 64 + 16400 + 64 } else { ARENA };
    let mut arena = Aligned::new(arena_len);
    fill(&mut rng, 0, arena.slice());
    tr.emit(json!({"ev":"arena","bytes":arena.slice().to_vec()}));
    // lengths: every residue of 8/16/32/64 and more than four AVX-512 vectors
    let lite = o.flag("lite");
    let isolate = o.flag("isolate");
    let mut lens: Vec<usize> = if lite { (0..=70).collect() } else { (0..=132).collect() };
    lens.extend([160, 191, 192, 193, 200, 255, 256, 257, 260, 289, 300]);
    let offs: Vec<usize> = if o.thorough() { (0..64).collect() } else { vec![0, 1, 7, 8, 31, 63] };
    let special = [0usize, 1, 7, 8, 15, 16, 17, 31, 32, 33, 63, 64, 65, 127, 129];
    let mut plan: Vec<(usize, usize, u8)> = vec![];
    for &n in &lens {
        for &off in &offs {
            let reps = if lite || (o.thorough() && offs.len() > 8) { 1 } else { 3 };
            for _ in 0..reps {
                plan.push((n, off, rng.random()));
            }
        }
    }
    for &n in &special {
        for c in (0..=255u8).step_by(if lite { 16 } else { 1 }) {
            plan.push((n, offs[(c as usize) % offs.len()], c));
        }
    }
    if long {
        plan.clear();
        for &n in &[1000usize, 2048, 4095, 4096, 4097, 4100, 4159, 4160, 4161, 5000, 8191, 8192, 8193, 8255, 10000, 12289, 16383, 16391] {
            for &off in &[0usize, 1, 63] {
                plan.push((n, off, rng.random()));
            }
        }
    }
    let mut ops = 0usize;
    for (n, off, mut c) in plan {
        // scalars the API forbids are only exercised where no debug assertion guards them
        if kind == "fma" && (c == 0 || c == 1) && checked {
            c = 2;
        }
        if kind == "fmab" && c == 0 && checked {
            c = 3;
        }
        let start = BASE + off;
        let pat: u8 = rng.random_range(0..5);
        // source operand taken at a varying offset of its own buffer
        let soff = rng.random_range(0..8usize);
        let mut srcbuf = vec![0u8; n + soff + 1];
        fill(&mut rng, pat, &mut srcbuf);
        let src = srcbuf[soff..soff + n].to_vec();
        let words: Vec<u64> = (0..n.div_ceil(64)).map(|_| match pat {
            1 => 0,
            2 => u64::MAX,
            // sparse rows: all-zero words mixed with one-hot and random words (the solver's HDPC/tail rows look like this)
            3 => match rng.random_range(0..3) { 0 => 0, 1 => 1u64 << rng.random_range(0..64), _ => rng.random() },
            _ => rng.random(),
        }).collect();
        let scalar = Octet::new(c);
        let mut ev = json!({"ev":"op","k":kind,"level":level_name,"off":start,"len":n,"c":c});
        let a = arena.slice();
        // --isolate (guard-page runs): the destination operand lives in an allocation of exactly n bytes of its own (flush
        // against an inaccessible page under RQV_GUARD), so that a read or write of even one byte beside it faults; the
        // result is copied back into the arena and validated as usual
        let mut own: Vec<u8> = if isolate { a[start..start + n].to_vec() } else { Vec::new() };
        let r = catch(AssertUnwindSafe(|| {
            let dest: &mut [u8] = if isolate { &mut own[..] } else { &mut a[start..start + n] };
            match (kind.as_str(), level) {
                ("add", Some(l)) => vk::add_assign_at(l, dest, &src),
                ("add", None) => v::add_assign(dest, &src),
                ("mul", Some(l)) => vk::mulassign_scalar_at(l, dest, &scalar),
                ("mul", None) => v::mulassign_scalar(dest, &scalar),
                ("fma", Some(l)) => vk::fma_at(l, dest, &src, &scalar),
                ("fma", None) => v::fused_addassign_mul_scalar(dest, &src, &scalar),
                ("fmab", Some(l)) => vk::fma_binary_at(l, dest, &BinaryOctetVec::new(words.clone(), n), &scalar),
                ("fmab", None) => v::fused_addassign_mul_scalar_binary(dest, &BinaryOctetVec::new(words.clone(), n), &scalar),
                _ => panic!("unknown kernel kind"),
            }
        }));
        if isolate {
            arena.slice()[start..start + n].copy_from_slice(&own);
        }
        match r {
            Ok(()) => ev["res"] = json!("ok"),
            Err(m) => {
                ev["res"] = json!("panic");
                ev["msg"] = json!(m);
            }
        }
        match kind.as_str() {
            "add" | "fma" => ev["src"] = json!(src),
            "fmab" => ev["words"] = Value::Array(words.iter().map(|w| json!(w.to_le_bytes().to_vec())).collect()),
            _ => {}
        }
        let winlo = start.saturating_sub(8);
        let winhi = (start + n + 8).min(arena_len);
        ev["winlo"] = json!(winlo);
        ev["win"] = json!(arena.slice()[winlo..winhi].to_vec());
        tr.emit(ev);
        ops += 1;
        if ops % 25 == 0 && !long {
            tr.emit(json!({"ev":"snapshot","bytes":arena.slice().to_vec()}));
        }
    }
    tr.emit(json!({"ev":"snapshot","bytes":arena.slice().to_vec()}));
    tr.emit(json!({"ev":"end"}));
    println!("events={}", tr.finish());
}
