//! C18: request repair packets through windows, single requests, independently generated plans and whole-object
//! encoders; log every returned list for validation against spec/Trace_Stream.tla.
use crate::util::{Opts, Trace, catch};
use rand::{Rng, SeedableRng, rngs::StdRng};
use raptorq::{Encoder, EncodingPacket, ObjectTransmissionInformation as Oti, SourceBlockEncoder, SourceBlockEncodingPlan};
use serde_json::{Value, json};
use std::panic::AssertUnwindSafe;

fn pk(p: &EncodingPacket) -> Value {
    json!([p.payload_id().source_block_number(), p.payload_id().encoding_symbol_id(), p.data()])
}

fn window(tr: &mut Trace, name: &str, enc: &SourceBlockEncoder, sbn: u8, s: u32, n: u32) {
    let mut ev = json!({"ev":"window","enc":name,"sbn":sbn,"s":s,"n":n});
    match catch(AssertUnwindSafe(|| enc.repair_packets(s, n))) {
        Ok(v) => {
            ev["res"] = json!("ok");
            ev["packets"] = json!(v.iter().map(pk).collect::<Vec<_>>());
        }
        Err(m) => {
            ev["res"] = json!("panic");
            ev["msg"] = json!(m);
            ev["packets"] = json!([]);
        }
    }
    tr.emit(ev);
}

/// configs "F:T:Z;..." (N = 1, Al = 1)
pub fn run(o: &Opts) {
    crate::util::quiet_panics();
    let mut tr = Trace::create(&o.str("out", "stream.ndjson"));
    let seed = o.u64("seed", 1);
    let mut rng = StdRng::seed_from_u64(seed);
    let nwin = o.usize("windows", 10);
    tr.emit(json!({"ev":"meta","property":"C18","seed":seed}));
    for (ci, c) in o.str("configs", "20:2:1").split(';').filter(|s| !s.is_empty()).enumerate() {
        let v: Vec<u64> = c.split(':').map(|x| x.parse().unwrap()).collect();
        let (f, t, z) = (v[0], v[1], v[2]);
        // optional 4th field: data kind - 0 as drawn by object_data, 1 all zero, 2 one constant byte, 3 a 16-byte period
        // (kinds 1-3 make the source blocks of a multi-block object byte-identical)
        let kind = v.get(3).copied().unwrap_or(0);
        let data: Vec<u8> = match kind {
            1 => vec![0u8; f as usize],
            2 => vec![0xA5u8; f as usize],
            3 => (0..f as usize).map(|i| (i % 16 * 13 + 7) as u8).collect(),
            _ => crate::codec::object_data(seed + 31 * ci as u64, f as usize),
        };
        let oti = Oti::new(f, t as u16, z as u8, 1, 1);
        tr.emit(json!({"ev":"cfg","id":ci,"f":f,"t":t,"z":z,"data":data}));
        let whole = Encoder::new(&data, oti);
        // per block: the same block through four differently constructed encoders
        let kt = f.div_ceil(t);
        let (il, is, jl) = (kt.div_ceil(z), kt / z, kt - (kt / z) * z);
        let mut start = 0usize;
        for b in 0..z {
            let k = if b < jl { il } else { is } as usize;
            let mut block = data[(start * t as usize).min(data.len())..((start + k) * t as usize).min(data.len())].to_vec();
            block.resize(k * t as usize, 0);
            start += k;
            let cfg_b = Oti::new(0, t as u16, 0, 1, 1);
            let plan_a = SourceBlockEncodingPlan::generate(k as u16);
            let plan_b = SourceBlockEncodingPlan::generate(k as u16);
            let encs: Vec<(&str, SourceBlockEncoder)> = vec![
                ("new", SourceBlockEncoder::new(b as u8, &cfg_b, &block)),
                ("planA", SourceBlockEncoder::with_encoding_plan(b as u8, &cfg_b, &block, &plan_a)),
                ("planB", SourceBlockEncoder::with_encoding_plan(b as u8, &cfg_b, &block, &plan_b)),
                ("object", whole.get_block_encoders()[b as usize].clone()),
            ];
            // a plan generated for ANOTHER block size with the same K': the constructor may refuse it (it does today); if it
            // accepts it, the packets must still be the right ones
            let kp = raptorq::extended_source_block_symbols(k as u32) as usize;
            for k1 in [k.wrapping_sub(1), k.wrapping_sub(3), k + 1, kp] {
                if k1 == 0 || k1 == k || k1 > kp || raptorq::extended_source_block_symbols(k1 as u32) as usize != kp {
                    continue;
                }
                let foreign = SourceBlockEncodingPlan::generate(k1 as u16);
                match catch(AssertUnwindSafe(|| SourceBlockEncoder::with_encoding_plan(b as u8, &cfg_b, &block, &foreign))) {
                    Ok(enc) => {
                        window(&mut tr, "foreignplan", &enc, b as u8, 0, 6);
                        window(&mut tr, "foreignplan", &enc, b as u8, rng.random_range(0..((1u32 << 24) - k as u32 - 4)), 3);
                    }
                    Err(_) => tr.emit(json!({"ev":"window","enc":"foreignplan","sbn":b,"s":0,"n":0,"res":"refused","packets":[],"k1":k1})),
                }
            }
            let top = (1u32 << 24) - k as u32; // number of repair indices
            for w in 0..nwin {
                let n: u32 = rng.random_range(1..=8);
                let s: u32 = match w % 5 {
                    0 => rng.random_range(0..16),
                    1 => rng.random_range(0..top - n),
                    2 => top - n,                       // window ending at the last producible ESI 2^24-1
                    3 => 65536u32.saturating_sub(k as u32 + rng.random_range(0..4)),
                    _ => rng.random_range(0..64),
                };
                let (name, enc) = &encs[rng.random_range(0..encs.len())];
                window(&mut tr, name, enc, b as u8, s, n);
                // an overlapping window through another encoder, and singles for every member
                let (name2, enc2) = &encs[rng.random_range(0..encs.len())];
                let s2 = s + rng.random_range(0..n);
                let n2 = rng.random_range(1..=8).min(top - s2);
                window(&mut tr, name2, enc2, b as u8, s2, n2);
                for j in 0..n {
                    let (name3, enc3) = &encs[rng.random_range(0..encs.len())];
                    window(&mut tr, name3, enc3, b as u8, s + j, 1);
                }
            }
            window(&mut tr, "new", &encs[0].1, b as u8, top - 1, 1);
            window(&mut tr, "planB", &encs[2].1, b as u8, 0, 0);
        }
        for r in [0u32, 1, 5] {
            let mut ev = json!({"ev":"list","r":r});
            match catch(AssertUnwindSafe(|| whole.get_encoded_packets(r))) {
                Ok(v) => {
                    ev["res"] = json!("ok");
                    ev["packets"] = json!(v.iter().map(pk).collect::<Vec<_>>());
                }
                Err(m) => {
                    ev["res"] = json!("panic");
                    ev["msg"] = json!(m);
                    ev["packets"] = json!([]);
                }
            }
            tr.emit(ev);
        }
    }
    // --bigwin: long windows and every window length up to 130 at large symbol sizes.  Logged: the ID list of the window, and
    // for a handful of positions the head and tail of the payload next to the same packet requested singly.
    if o.flag("bigwin") {
        let proj = |d: &[u8]| -> Vec<u8> { d.iter().take(12).chain(d.iter().rev().take(12)).copied().collect() };
        for (ci, &(k, t)) in [(4usize, 65535usize), (5, 16384), (3, 4096), (6, 1280), (4, 1024), (7, 64)].iter().enumerate() {
            let f = (k * t) as u64;
            let data = crate::codec::object_data(seed + 977 * ci as u64, f as usize);
            tr.emit(json!({"ev":"cfg","id":1000 + ci,"f":f,"t":t,"z":1,"data":[]}));
            let enc = SourceBlockEncoder::new(0, &Oti::new(f, t as u16, 1, 1, 1), &data);
            let mut ns: Vec<u32> = (1..=130).collect();
            ns.extend([191, 192, 193, 255, 256, 257, 511, 512, 513, 613, 614, 615, 767, 768, 769, 1000, 1023, 1024, 1025, 1228, 1535, 1536, 2047, 2048, 4095, 4096, 12288]);
            for n in ns {
                if n as usize * t > 9_000_000 {
                    continue;
                }
                let s_ = rng.random_range(0..2000u32);
                let mut ev = json!({"ev":"bigwindow","sbn":0,"s":s_,"n":n});
                match catch(AssertUnwindSafe(|| enc.repair_packets(s_, n))) {
                    Ok(v) => {
                        ev["res"] = json!("ok");
                        ev["ids"] = json!(v.iter().map(|p| json!([p.payload_id().source_block_number(), p.payload_id().encoding_symbol_id()])).collect::<Vec<_>>());
                        let mut samples = vec![];
                        let mut idx: Vec<usize> = vec![0, 1, v.len() / 2, v.len().saturating_sub(2), v.len().saturating_sub(1)];
                        idx.push(rng.random_range(0..v.len().max(1)));
                        idx.sort();
                        idx.dedup();
                        for i in idx {
                            if i < v.len() {
                                let single = enc.repair_packets(s_ + i as u32, 1);
                                samples.push(json!({"i": i, "len": v[i].data().len(), "win": proj(v[i].data()),
                                                    "single_id": single.first().map(|p| p.payload_id().encoding_symbol_id()),
                                                    "single": single.first().map(|p| proj(p.data()))}));
                            }
                        }
                        ev["samples"] = json!(samples);
                    }
                    Err(m) => {
                        ev["res"] = json!("panic");
                        ev["msg"] = json!(m);
                    }
                }
                tr.emit(ev);
            }
        }
    }
    tr.emit(json!({"ev":"end"}));
    println!("events={}", tr.finish());
}
