//! C10: dump every result of the scalar field arithmetic and every derived table.
use crate::util::{Opts, Trace};
use raptorq::Octet;
use raptorq::verif as v;
use serde_json::json;

pub fn run(o: &Opts) {
    let mut t = Trace::create(&o.str("out", "gf256.ndjson"));
    let accs: Vec<u32> = if o.thorough() {
        (0..=256).collect()
    } else {
        vec![0, 1, 0x55, 0xAA, 0xFF, 256]
    };
    t.emit(json!({"ev":"meta","property":"C10","accs":accs.len()}));
    let exp: Vec<u8> = v::oct_exp().to_vec();
    let log: Vec<u8> = v::oct_log().to_vec();
    let alpha: Vec<u8> = (0..256usize).map(|i| Octet::alpha(i).byte()).collect();
    t.emit(json!({"ev":"tabs","exp":exp,"log":log,"alpha":alpha,
                  "zero":Octet::zero().byte(),"one":Octet::one().byte()}));
    for a in 0..=255u8 {
        let oa = Octet::new(a);
        let mul: Vec<u8> = (0..=255u8).map(|b| (oa.clone() * Octet::new(b)).byte()).collect();
        let mulref: Vec<u8> = (0..=255u8).map(|b| (&oa * &Octet::new(b)).byte()).collect();
        let div: Vec<u8> = (1..=255u8).map(|b| (oa.clone() / Octet::new(b)).byte()).collect();
        let divref: Vec<u8> = (1..=255u8).map(|b| (&oa / &Octet::new(b)).byte()).collect();
        let add: Vec<u8> = (0..=255u8).map(|b| (oa.clone() + Octet::new(b)).byte()).collect();
        let addref: Vec<u8> = (0..=255u8).map(|b| (&oa + &Octet::new(b)).byte()).collect();
        let sub: Vec<u8> = (0..=255u8).map(|b| (oa.clone() - Octet::new(b)).byte()).collect();
        let addassign: Vec<u8> = (0..=255u8)
            .map(|b| {
                let mut x = oa.clone();
                x += Octet::new(b);
                let mut y = oa.clone();
                y += &Octet::new(b);
                assert_eq!(x, y);
                x.byte()
            })
            .collect();
        let fma: Vec<serde_json::Value> = accs
            .iter()
            .map(|&accspec| {
                let r: Vec<u8> = (0..=255u8)
                    .map(|b| {
                        let acc = if accspec == 256 { a ^ b } else { accspec as u8 };
                        let mut x = Octet::new(acc);
                        x.fma(&oa, &Octet::new(b));
                        x.byte()
                    })
                    .collect();
                json!([accspec, r])
            })
            .collect();
        t.emit(json!({"ev":"row","a":a,"mul":mul,"mulref":mulref,"div":div,"divref":divref,"add":add,
                      "addref":addref,"sub":sub,"addassign":addassign,"fma":fma,
                      "omul":v::octet_mul()[a as usize].to_vec(),
                      "lo":v::octet_mul_low()[a as usize].to_vec(),
                      "hi":v::octet_mul_hi()[a as usize].to_vec()}));
    }
    t.emit(json!({"ev":"end"}));
    let n = t.finish();
    println!("events={n}");
}
