//! C15: systematic constants for every K, Tuple[K', X], and the ISIs where 32-bit arithmetic would wrap.
use crate::util::{Opts, Trace, catch};
use rand::{Rng, SeedableRng, rngs::StdRng};
use raptorq::verif as v;
use raptorq::{EncodingPacket, ObjectTransmissionInformation, SourceBlockDecoder, SourceBlockEncoder};
use serde_json::{Value, json};
use std::io::{BufRead, BufReader};

fn params_event(k: u32) -> Value {
    let r = catch(move || {
        (v::extended_source_block_symbols(k), v::systematic_index(k), v::num_ldpc_symbols(k), v::num_hdpc_symbols(k),
         v::num_lt_symbols(k), v::num_intermediate_symbols(k), v::num_pi_symbols(k), v::calculate_p1(k))
    });
    match r {
        Ok((kp, j, s, h, w, l, p, p1)) => json!({"ev":"params","k":k,"res":"ok","kp":kp,"j":j,"s":s,"h":h,"w":w,"l":l,"p":p,"p1":p1}),
        Err(m) => json!({"ev":"params","k":k,"res":"panic","msg":m}),
    }
}

fn tuple_event(kp: u32, x: u32) -> Value {
    let r = catch(move || {
        let (w, j, p1) = (v::num_lt_symbols(kp), v::systematic_index(kp), v::calculate_p1(kp));
        v::intermediate_tuple(x, w, j, p1)
    });
    match r {
        Ok(t) => json!({"ev":"tuple","kp":kp,"x":x,"res":"ok","t":[t.0,t.1,t.2,t.3,t.4,t.5]}),
        Err(m) => json!({"ev":"tuple","kp":kp,"x":x,"res":"panic","msg":m}),
    }
}

pub fn log(o: &Opts) {
    crate::util::quiet_panics();
    let mut tr = Trace::create(&o.str("out", "params.ndjson"));
    let seed = o.u64("seed", 1);
    let mut rng = StdRng::seed_from_u64(seed);
    tr.emit(json!({"ev":"meta","property":"C15","seed":seed,"profile":o.str("profile","release")}));
    let kps: Vec<u32> = v::SYSTEMATIC_INDICES_AND_PARAMETERS.iter().map(|r| r.0).collect();
    match o.str("what", "params").as_str() {
        "params" => {
            // --range lo:hi (inclusive) or boundary set
            if let Some(r) = o.get("range") {
                let f: Vec<u32> = r.split(':').map(|x| x.parse().unwrap()).collect();
                for k in f[0]..=f[1] {
                    tr.emit(params_event(k));
                }
            } else {
                let mut ks: Vec<u32> = vec![0, 1, 2];
                for &kp in &kps {
                    for d in [-1i64, 0, 1] {
                        let k = kp as i64 + d;
                        if (0..=56403).contains(&k) {
                            ks.push(k as u32);
                        }
                    }
                }
                for _ in 0..o.usize("nrand", 500) {
                    ks.push(rng.random_range(0..=56403));
                }
                ks.sort();
                ks.dedup();
                for k in ks {
                    tr.emit(params_event(k));
                }
            }
        }
        "tuples" => {
            let per = o.usize("per", 40);
            let first = o.usize("first", 0);
            let count = o.usize("count", kps.len());
            for &kp in kps.iter().skip(first).take(count) {
                let top = (1u32 << 24) + kp - 1;
                let mut xs: Vec<u32> = (0..12).collect();
                xs.extend([kp - 1, kp, kp + 1, kp + 40, top, top - 1, top - kp, 1 << 24, (1 << 24) - 1, 65535, 65536]);
                for _ in 0..per {
                    xs.push(rng.random_range(0..=top));
                }
                for _ in 0..per / 4 {
                    xs.push(rng.random_range(0..kp + 200));
                }
                for x in xs {
                    tr.emit(tuple_event(kp, x));
                }
            }
        }
        "deg" => {
            // the degree function itself: every W of Table 2 (and the smallest values below) x every v at, just below and just
            // above a threshold of the degree table, 0 and 2^20 - 1
            let f: [u32; 31] = [0, 5243, 529531, 704294, 791675, 844104, 879057, 904023, 922747, 937311, 948962, 958494, 966438, 973160, 978921,
                                983914, 988283, 992138, 995565, 998631, 1001391, 1003887, 1006157, 1008229, 1010129, 1011876, 1013490, 1014983,
                                1016370, 1017662, 1048576];
            let mut vs: Vec<u32> = vec![];
            for &t in &f {
                for d in [-2i64, -1, 0, 1] {
                    let v = t as i64 + d;
                    if (0..1048576).contains(&v) {
                        vs.push(v as u32);
                    }
                }
            }
            vs.sort();
            vs.dedup();
            let mut ws: Vec<u32> = raptorq::verif::SYSTEMATIC_INDICES_AND_PARAMETERS.iter().map(|r| r.4).collect();
            ws.sort();
            ws.dedup();
            for w in ws {
                let ds: Vec<Value> = vs.iter().map(|&v| match catch(move || raptorq::verif::deg(v, w)) {
                    Ok(d) => json!(d),
                    Err(_) => json!("panic"),
                }).collect();
                tr.emit(json!({"ev":"deg","w":w,"vs":vs,"ds":ds}));
            }
        }
        other => panic!("unknown what {other}"),
    }
    tr.emit(json!({"ev":"end"}));
    println!("events={}", tr.finish());
}

/// Replay of TLC-solved wrap cases: {"kind":"wrap","kp":K',"k":K,"x":X,"t":[..]}.  Must be run from the
/// overflow-checked build as well: a panic is a mismatch.
pub fn replay(o: &Opts) {
    crate::util::quiet_panics();
    let input = BufReader::new(std::fs::File::open(o.str("in", "cases.ndjson")).unwrap());
    let mut out = Trace::create(&o.str("out", "results.ndjson"));
    let mut n = 0;
    let mut bad = 0;
    for line in input.lines() {
        let line = line.unwrap();
        if line.trim().is_empty() {
            continue;
        }
        let c: Value = serde_json::from_str(&line).unwrap();
        n += 1;
        let kp = c["kp"].as_u64().unwrap() as u32;
        let k = c["k"].as_u64().unwrap() as u32;
        let x = c["x"].as_u64().unwrap() as u32;
        let want: Vec<u64> = c["t"].as_array().unwrap().iter().map(|t| t.as_u64().unwrap()).collect();
        let mut mism: Vec<String> = vec![];
        let te = tuple_event(kp, x);
        if te["res"] == "ok" {
            let gotv: Vec<u64> = te["t"].as_array().unwrap().iter().map(|t| t.as_u64().unwrap()).collect();
            if gotv != want {
                mism.push(format!("tuple differs from RFC: got {gotv:?}"));
            }
        } else {
            mism.push(format!("intermediate_tuple panicked: {}", te["msg"]));
        }
        // produce and consume the symbol with ISI x: ESI = x - (K' - K), as a repair symbol of a K-symbol block
        let esi = x - (kp - k);
        if esi >= k && esi < (1 << 24) && o.flag("codec") {
            let r = catch(move || {
                let t = 1usize;
                let data: Vec<u8> = (0..k as usize * t).map(|i| (i * 131 + 7) as u8).collect();
                let cfg = ObjectTransmissionInformation::new(0, t as u16, 0, 1, 1);
                let enc = SourceBlockEncoder::new(0, &cfg, &data);
                let rp = enc.repair_packets(esi - k, 1);
                let mut pk: Vec<EncodingPacket> = enc.source_packets();
                pk.remove((k / 2) as usize);
                pk.extend(rp);
                pk.extend(enc.repair_packets(0, 3));
                let mut dec = SourceBlockDecoder::new(0, &cfg, data.len() as u64);
                let res = dec.decode(pk);
                res.map(|d| d == data)
            });
            match r {
                Ok(Some(true)) => {}
                Ok(Some(false)) => mism.push("decode with the wrap symbol returned wrong data".into()),
                Ok(None) => mism.push("decode with the wrap symbol + 3 extra symbols failed".into()),
                Err(m) => mism.push(format!("producing/consuming the symbol panicked: {m}")),
            }
        }
        if !mism.is_empty() {
            bad += 1;
            out.emit(json!({"case": c, "got": te, "mismatch": mism}));
        }
    }
    out.finish();
    println!("cases={n} mismatches={bad}");
}
