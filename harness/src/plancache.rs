//! C17: the shared encoding-plan cache.  `plancache-replay` forces TLC-generated interleavings of the lookup / insert
//! critical sections on real threads (spec -> impl); `plancache-log` records the critical sections of free-running
//! threads in mutex order (impl -> spec).
use crate::util::{Opts, Trace};
use raptorq::verif::plan_cache as pc;
use raptorq::{ObjectTransmissionInformation as Oti, SourceBlockEncoder, SourceBlockEncodingPlan};
use serde_json::{Value, json};
use std::cell::Cell;
use std::collections::HashMap;
use std::io::{BufRead, BufReader};
use std::sync::{Arc, Condvar, Mutex};
use std::time::Duration;

thread_local! { static TID: Cell<u32> = const { Cell::new(0) }; }

fn kind_name(k: u8) -> &'static str {
    match k {
        pc::LOOKUP_HIT => "hit",
        pc::LOOKUP_MISS => "miss",
        pc::INSERT_RACE => "race",
        pc::INSERT_NEW => "new",
        _ => "?",
    }
}

fn block_data(k: u16) -> Vec<u8> {
    (0..k as usize).map(|i| (i * 31 + k as usize) as u8).collect()
}

struct Sched {
    order: Vec<u32>, // thread id per critical section
    pos: usize,
    log: Vec<(u32, u8, u16, pc::Snapshot)>,
    deviation: Option<String>,
}

pub fn replay(o: &Opts) {
    let input = BufReader::new(std::fs::File::open(o.str("in", "schedules.ndjson")).unwrap());
    let mut out = Trace::create(&o.str("out", "results.ndjson"));
    let cfg = Oti::new(0, 1, 0, 1, 1);
    let mut plans: HashMap<u16, SourceBlockEncodingPlan> = HashMap::new();
    let mut reference: HashMap<u16, SourceBlockEncoder> = HashMap::new();
    let mut n = 0;
    let mut bad = 0;
    let mut stalled = 0;
    let mut skipped = false;
    for line in input.lines() {
        let line = line.unwrap();
        if line.trim().is_empty() {
            continue;
        }
        let c: Value = serde_json::from_str(&line).unwrap();
        n += 1;
        let prefill = c["prefill"].as_u64().unwrap() as u16;
        let keys: Vec<u16> = c["keys"].as_array().unwrap().iter().map(|k| k.as_u64().unwrap() as u16).collect();
        let steps = c["steps"].as_array().unwrap();
        for k in (1..=prefill).chain(keys.iter().copied()) {
            plans.entry(k).or_insert_with(|| SourceBlockEncodingPlan::generate(k));
        }
        for &k in &keys {
            reference.entry(k).or_insert_with(|| SourceBlockEncoder::with_encoding_plan(0, &cfg, &block_data(k), &plans[&k]));
        }
        pc::clear();
        let pre: Vec<(u16, SourceBlockEncodingPlan)> = (1..=prefill).map(|k| (k, plans[&k].clone())).collect();
        pc::prefill(&pre);
        let sched = Arc::new((Mutex::new(Sched { order: steps.iter().map(|s| s["t"].as_u64().unwrap() as u32).collect(), pos: 0, log: vec![], deviation: None }), Condvar::new()));
        let s1 = sched.clone();
        let s2 = sched.clone();
        pc::set_hooks(
            Some(Arc::new(move |_point, _key| {
                let me = TID.with(|t| t.get());
                let (m, cv) = &*s1;
                let mut g = m.lock().unwrap();
                loop {
                    if g.pos >= g.order.len() {
                        g.deviation = Some(format!("thread {me} enters a critical section the specification does not have"));
                        break;
                    }
                    if g.order[g.pos] == me {
                        break;
                    }
                    let (ng, to) = cv.wait_timeout(g, Duration::from_secs(5)).unwrap();
                    g = ng;
                    if to.timed_out() {
                        g.deviation = Some(format!("thread {me} waited 5 s for its turn at step {} (another thread did not take the expected step)", g.pos));
                        break;
                    }
                }
            })),
            Some(Arc::new(move |kind, key, snap: &pc::Snapshot| {
                let me = TID.with(|t| t.get());
                let (m, cv) = &*s2;
                let mut g = m.lock().unwrap();
                g.log.push((me, kind, key, snap.clone()));
                g.pos += 1;
                cv.notify_all();
            })),
        );
        let results: Vec<(u32, u16, Result<SourceBlockEncoder, String>)> = std::thread::scope(|s| {
            let hs: Vec<_> = keys
                .iter()
                .enumerate()
                .map(|(i, &k)| {
                    s.spawn(move || {
                        TID.with(|t| t.set(i as u32 + 1));
                        let r = std::panic::catch_unwind(|| SourceBlockEncoder::new(0, &Oti::new(0, 1, 0, 1, 1), &block_data(k)));
                        (i as u32 + 1, k, r.map_err(|_| "panic".to_string()))
                    })
                })
                .collect();
            hs.into_iter().map(|h| h.join().unwrap()).collect()
        });
        pc::set_hooks(None, None);
        let g = sched.0.lock().unwrap();
        // `mism`: the execution left the specification's behaviours (kind/order of critical sections, eviction order);
        // `prop`: a condition of the property itself failed on the observed state (capacity, map/FIFO consistency, a plan
        // cached under another symbol count, an encoder differing from the cache-less one, a panic)
        let mut mism: Vec<String> = vec![];
        let mut prop: Vec<String> = vec![];
        if let Some(d) = &g.deviation {
            mism.push(d.clone());
        }
        if g.log.len() != steps.len() {
            mism.push(format!("{} critical sections executed, the specification has {}", g.log.len(), steps.len()));
        }
        for (i, lg) in g.log.iter().enumerate() {
            let mut fifo_keys = lg.3.fifo.clone();
            fifo_keys.sort();
            let dup = fifo_keys.windows(2).any(|w| w[0] == w[1]);
            if dup || lg.3.plans.iter().map(|p| p.0).collect::<Vec<_>>() != fifo_keys {
                prop.push(format!("step {i}: map keys differ from the FIFO contents{}", if dup { " (a key is queued twice)" } else { "" }));
            }
            if lg.3.plans.iter().any(|p| p.0 != p.1) {
                prop.push(format!("step {i}: a cached plan was generated for a different symbol count"));
            }
            if lg.3.plans.len() > pc::capacity() {
                prop.push(format!("step {i}: cache holds {} plans, capacity {}", lg.3.plans.len(), pc::capacity()));
            }
        }
        for (i, (st, lg)) in steps.iter().zip(g.log.iter()).enumerate() {
            let want_fifo: Vec<u16> = ((st["drop"].as_u64().unwrap() as u16 + 1)..=prefill)
                .chain(st["app"].as_array().unwrap().iter().map(|x| x.as_u64().unwrap() as u16))
                .collect();
            if lg.0 as u64 != st["t"].as_u64().unwrap() || kind_name(lg.1) != st["act"].as_str().unwrap() || lg.2 as u64 != st["key"].as_u64().unwrap() {
                mism.push(format!("step {i}: expected thread {} {} key {}, got thread {} {} key {}", st["t"], st["act"], st["key"], lg.0, kind_name(lg.1), lg.2));
            }
            if lg.3.fifo != want_fifo {
                mism.push(format!("step {i}: FIFO after the critical section differs (len {} vs {}, tail {:?} vs {:?})", lg.3.fifo.len(), want_fifo.len(),
                                  &lg.3.fifo[lg.3.fifo.len().saturating_sub(3)..], &want_fifo[want_fifo.len().saturating_sub(3)..]));
            }
        }
        for (t, k, r) in &results {
            match r {
                Ok(enc) => {
                    if enc != &reference[k] {
                        prop.push(format!("thread {t}: encoder for {k} symbols differs from the one built without the cache"));
                    }
                }
                Err(m) => prop.push(format!("thread {t}: {m}")),
            }
        }
        if !mism.is_empty() || !prop.is_empty() {
            bad += 1;
            let mut all = prop.clone();
            all.extend(mism.iter().cloned());
            let timed_out = g.deviation.is_some();
            out.emit(json!({"case": c, "got": {"log": g.log.iter().map(|l| json!([l.0, kind_name(l.1), l.2, l.3.fifo.len()])).collect::<Vec<_>>()},
                            "mismatch": all, "property_level": prop, "model_level": mism}));
            // every schedule that cannot be forced costs its time-out: after a few of them the rest adds nothing
            if timed_out {
                stalled += 1;
                if stalled >= 12 {
                    skipped = true;
                    break;
                }
            }
        }
    }
    if skipped {
        println!("stopped after {stalled} schedules that could not be forced (time-outs)");
    }
    out.finish();
    println!("cases={n} mismatches={bad}");
}

pub fn log(o: &Opts) {
    let mut tr = Trace::create(&o.str("out", "plancache.ndjson"));
    let seed = o.u64("seed", 1);
    let threads = o.usize("threads", 16);
    let reqs = o.usize("reqs", 60);
    let sizes = o.usize("sizes", 200) as u64;
    tr.emit(json!({"ev":"meta","property":"C17","seed":seed,"threads":threads,"capacity":pc::capacity()}));
    pc::clear();
    let events: Arc<Mutex<Vec<Value>>> = Arc::new(Mutex::new(vec![]));
    let e2 = events.clone();
    pc::set_hooks(
        None,
        Some(Arc::new(move |kind, key, snap: &pc::Snapshot| {
            // called while the cache mutex is held: the order of this vector is the order of the critical sections
            let me = TID.with(|t| t.get());
            e2.lock().unwrap().push(json!({"ev":"cs","t":me,"kind":kind_name(kind),"key":key,"fifo":snap.fifo,
                                           "plans":snap.plans.iter().map(|p| json!([p.0, p.1])).collect::<Vec<_>>()}));
        })),
    );
    let cfg = Oti::new(0, 1, 0, 1, 1);
    // --collide: sizes that a lossy cache key would confuse - block sizes sharing the systematic index J (Table 2 has
    // rows with equal J), sharing K' (different padding), or differing by a multiple of 256; few enough to stay cached together
    let collide: Arc<Vec<u16>> = Arc::new(if o.flag("collide") {
        let rows: Vec<(u32, u32)> = raptorq::verif::SYSTEMATIC_INDICES_AND_PARAMETERS.iter().map(|r| (r.0, r.1)).filter(|r| r.0 <= 700).collect();
        let mut v: Vec<u16> = vec![];
        for (i, a) in rows.iter().enumerate() {
            for b in rows.iter().skip(i + 1) {
                if a.1 == b.1 && v.len() < 24 {
                    v.extend([a.0 as u16, a.0 as u16 - 1, b.0 as u16, b.0 as u16 - 1]);
                }
            }
        }
        v.extend([51, 52, 53, 54, 55, 370, 371, 372, 3, 259, 10, 266, 311, 567]);
        v.sort();
        v.dedup();
        v
    } else {
        vec![]
    });
    std::thread::scope(|s| {
        for i in 0..threads {
            let ev = events.clone();
            let collide = collide.clone();
            s.spawn(move || {
                TID.with(|t| t.set(i as u32 + 1));
                let mut g = crate::scn::Lcg(seed ^ (i as u64 * 7919));
                for r in 0..reqs {
                    // a mix: a few hot sizes shared by all threads, and a long tail that overflows the capacity
                    let k = if !collide.is_empty() { collide[(g.next() % collide.len() as u64) as usize] }
                            else if r % 3 == 0 { 1 + (g.next() % 6) as u16 } else { 1 + (g.next() % sizes) as u16 };
                    let enc = SourceBlockEncoder::new(0, &cfg, &block_data(k));
                    let reference = SourceBlockEncoder::with_encoding_plan(0, &cfg, &block_data(k), &SourceBlockEncodingPlan::generate(k));
                    ev.lock().unwrap().push(json!({"ev":"ret","t":i as u32 + 1,"key":k,"same": enc == reference}));
                }
            });
        }
    });
    pc::set_hooks(None, None);
    for e in events.lock().unwrap().iter() {
        tr.emit(e.clone());
    }
    tr.emit(json!({"ev":"end"}));
    println!("events={}", tr.finish());
}
