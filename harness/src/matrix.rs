//! C16: replay TLC-generated operation histories of the abstract matrix (spec/Matrix.tla) on DenseBinaryMatrix and
//! SparseBinaryMatrix and compare every answer with the specification's.
use crate::util::{Opts, Trace, catch};
use raptorq::{BinaryMatrix, DenseBinaryMatrix, Octet, SparseBinaryMatrix};
use serde_json::{Value, json};
use std::io::{BufRead, BufReader};
use std::panic::AssertUnwindSafe;

fn us(v: &Value) -> usize {
    v.as_u64().unwrap() as usize
}
fn list(v: &Value) -> Vec<usize> {
    v.as_array().unwrap().iter().map(us).collect()
}

/// bits of a BinaryOctetVec are not public: unpack through the public kernel (dest ^= 1 * bits on a zero buffer)
fn unpack(v: &raptorq::verif::BinaryOctetVec) -> Vec<u8> {
    let mut out = vec![0u8; v.len()];
    raptorq::verif::fused_addassign_mul_scalar_binary(&mut out, v, &Octet::one());
    out
}

fn apply<M: BinaryMatrix>(m: &mut Option<M>, op: &Value, name: &str, mism: &mut Vec<String>, step: usize) {
    let kind = op["op"].as_str().unwrap();
    let r = catch(AssertUnwindSafe(|| -> Option<String> {
        if kind == "new" {
            *m = Some(M::new(us(&op["h"]), us(&op["w"]), us(&op["hint"])));
            return None;
        }
        let mx = m.as_mut().unwrap();
        match kind {
            "fill" => {
                for (i, row) in op["rows"].as_array().unwrap().iter().enumerate() {
                    for c in list(row) {
                        mx.set(i, c, Octet::one());
                    }
                }
                None
            }
            "set" => {
                mx.set(us(&op["i"]), us(&op["j"]), Octet::new(us(&op["v"]) as u8));
                None
            }
            "get" => {
                let g = mx.get(us(&op["i"]), us(&op["j"])).byte() as usize;
                (g != us(&op["want"])).then(|| format!("get({}, {}) = {g}", op["i"], op["j"]))
            }
            "index" => {
                mx.enable_column_access_acceleration();
                None
            }
            "unindex" => {
                mx.disable_column_access_acceleration();
                None
            }
            "swaprows" => {
                mx.swap_rows(us(&op["i"]), us(&op["j"]));
                None
            }
            "swapcols" => {
                mx.swap_columns(us(&op["i"]), us(&op["j"]), us(&op["hint"]));
                None
            }
            "freeze" => {
                mx.hint_column_dense_and_frozen(us(&op["c"]));
                None
            }
            "addrows" => {
                mx.add_assign_rows(us(&op["d"]), us(&op["s"]), us(&op["start"]));
                None
            }
            "resize" => {
                mx.resize(us(&op["h"]), us(&op["w"]));
                (mx.height() != us(&op["h"]) || mx.width() != us(&op["w"])).then(|| "height()/width() after resize".to_string())
            }
            "colones" => {
                let mut g: Vec<usize> = mx.get_ones_in_column(us(&op["c"]), us(&op["r0"]), us(&op["r1"])).iter().map(|x| *x as usize).collect();
                g.sort();
                (g != list(&op["want"])).then(|| format!("get_ones_in_column({}, {}, {}) = {g:?}", op["c"], op["r0"], op["r1"]))
            }
            "range" => {
                let (r, a, b) = (us(&op["r"]), us(&op["a"]), us(&op["b"]));
                let cnt = mx.count_ones(r, a, b);
                let mut ones: Vec<usize> = mx.get_row_iter(r, a, b).filter(|(_, v)| *v == Octet::one()).map(|(c, _)| c).collect();
                ones.sort();
                // the detached copy of the iterator (used by the solver's first phase) must yield the same cells
                let same_clone = mx.get_row_iter(r, a, b).collect::<Vec<_>>() == mx.get_row_iter(r, a, b).clone().collect::<Vec<_>>();
                if !same_clone {
                    Some(format!("get_row_iter({r}, {a}, {b}).clone() yields different cells than the iterator"))
                } else if cnt != us(&op["count"]) {
                    Some(format!("count_ones({r}, {a}, {b}) = {cnt}"))
                } else if ones != list(&op["ones"]) {
                    Some(format!("get_row_iter({r}, {a}, {b}) ones = {ones:?}"))
                } else {
                    None
                }
            }
            "taild" if name != "dense" => None,
            "tail" | "taild" => {
                let (r, c) = (us(&op["r"]), us(&op["c"]));
                let mut q = mx.query_non_zero_columns(r, c);
                q.sort();
                let bits = unpack(&mx.get_sub_row_as_octets(r, c));
                let from_bits: Vec<usize> = bits.iter().enumerate().filter(|(_, b)| **b == 1).map(|(k, _)| c + k).collect();
                let want = list(&op["ones"]);
                if q != want {
                    Some(format!("query_non_zero_columns({r}, {c}) = {q:?}"))
                } else if from_bits != want || bits.len() != mx.width() - c {
                    Some(format!("get_sub_row_as_octets({r}, {c}) ones = {from_bits:?} (len {})", bits.len()))
                } else {
                    None
                }
            }
            "checkall" => {
                let rows = op["rows"].as_array().unwrap();
                let undef = op["undef"].as_array().unwrap();
                if mx.height() != rows.len() {
                    return Some(format!("height {} vs {}", mx.height(), rows.len()));
                }
                for i in 0..rows.len() {
                    let ones = list(&rows[i]);
                    let ud = list(&undef[i]);
                    for j in 0..mx.width() {
                        if ud.contains(&j) {
                            continue;
                        }
                        let want = ones.contains(&j) as u8;
                        if mx.get(i, j).byte() != want {
                            return Some(format!("cell ({i}, {j}) = {} but the specification has {want}", mx.get(i, j).byte()));
                        }
                    }
                }
                None
            }
            other => panic!("unknown op {other}"),
        }
    }));
    match r {
        Ok(None) => {}
        Ok(Some(m)) => mism.push(format!("step {step} ({kind}) {name}: {m}")),
        Err(p) => mism.push(format!("step {step} ({kind}) {name}: panic inside an admissible call: {p}")),
    }
}

pub fn replay(o: &Opts) {
    let input = BufReader::new(std::fs::File::open(o.str("in", "behaviours.ndjson")).unwrap());
    let mut out = Trace::create(&o.str("out", "results.ndjson"));
    let (mut n, mut bad, mut steps) = (0, 0, 0usize);
    for line in input.lines() {
        let line = line.unwrap();
        if line.trim().is_empty() {
            continue;
        }
        let c: Value = serde_json::from_str(&line).unwrap();
        n += 1;
        let mut d: Option<DenseBinaryMatrix> = None;
        let mut s: Option<SparseBinaryMatrix> = None;
        let mut mism: Vec<String> = vec![];
        let ops = c["ops"].as_array().unwrap();
        for (i, op) in ops.iter().enumerate() {
            steps += 1;
            let before = mism.len();
            apply(&mut d, op, "dense", &mut mism, i);
            apply(&mut s, op, "sparse", &mut mism, i);
            if mism.len() > before {
                break; // the two back-ends may now be in different states: stop at the first disagreement
            }
        }
        if !mism.is_empty() {
            bad += 1;
            let upto = mism[0].split(' ').nth(1).and_then(|x| x.parse::<usize>().ok()).unwrap_or(0);
            out.emit(json!({"case": {"new": ops[0], "ops_upto_failure": ops[..=upto.min(ops.len() - 1)].iter().rev().take(6).rev().collect::<Vec<_>>(), "nops": ops.len()},
                            "got": Value::Null, "mismatch": mism}));
        }
    }
    out.finish();
    println!("cases={n} mismatches={bad} steps={steps}");
}
