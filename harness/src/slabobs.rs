//! C12 (c): observe every paired borrow of SymbolSlab during encode / decode workloads.
use crate::util::{Opts, Trace};
use rand::{Rng, SeedableRng, rngs::StdRng};
use raptorq::{ObjectTransmissionInformation as Oti, SourceBlockDecoder, SourceBlockEncoder};
use serde_json::json;

pub fn run(o: &Opts) {
    let mut tr = Trace::create(&o.str("out", "slab.ndjson"));
    let seed = o.u64("seed", 1);
    let mut rng = StdRng::seed_from_u64(seed);
    tr.emit(json!({"ev":"meta","property":"C12","seed":seed}));
    for job in o.str("jobs", "10:4").split(';').filter(|s| !s.is_empty()) {
        let f: Vec<usize> = job.split(':').map(|x| x.parse().unwrap()).collect();
        let (k, t) = (f[0], f[1]);
        let data: Vec<u8> = (0..k * t).map(|_| rng.random()).collect();
        let cfg = Oti::new((k * t) as u64, t as u16, 1, 1, 1);
        raptorq::verif::slab_observe(true);
        // encode on both back-ends (direct solve), then decode from repair symbols only on both back-ends
        let enc = SourceBlockEncoder::verif_new_with(0, &cfg, &data, 0, false).unwrap();
        let _ = SourceBlockEncoder::verif_new_with(0, &cfg, &data, u32::MAX, true).unwrap();
        for thr in [0u32, u32::MAX] {
            let mut dec = SourceBlockDecoder::new(0, &cfg, (k * t) as u64);
            dec.set_sparse_threshold(thr);
            let mut pk = enc.repair_packets(0, (k + 2) as u32);
            pk.extend(enc.source_packets().into_iter().take(k / 3));
            let r = dec.decode(pk);
            assert!(r.is_none() || r.unwrap() == data);
        }
        let evs = raptorq::verif::slab_take_events();
        raptorq::verif::slab_observe(false);
        for chunk in evs.chunks(1500) {
            tr.emit(json!({"ev":"pairs","k":k,"t":t,"pairs":chunk.iter().map(|p| p.to_vec()).collect::<Vec<_>>()}));
        }
    }
    direct(&mut tr);
    matrix_direct(&mut tr);
    tr.emit(json!({"ev":"end"}));
    println!("events={}", tr.finish());
}

/// Row indices beyond the current height of a binary matrix (after a shrinking resize the storage may still hold the old
/// rows): every such call must be refused; in-range controls must be served.  Nothing else is judged here.
fn matrix_direct(tr: &mut Trace) {
    use raptorq::{BinaryMatrix, DenseBinaryMatrix, Octet, SparseBinaryMatrix};
    fn probe<M: BinaryMatrix>(name: &str, tr: &mut Trace) {
        let mut m = M::new(16, 128, 1);
        for i in 0..16 {
            m.set(i, (i * 7) % 128, Octet::one());
            m.set(i, 127, Octet::one());
        }
        m.resize(8, 128);
        let mut calls = vec![];
        let mut call = |label: &str, inrange: bool, f: &mut dyn FnMut(&mut M)| {
            let r = std::panic::catch_unwind(std::panic::AssertUnwindSafe(|| f(&mut m)));
            calls.push(json!({"op": label, "inrange": inrange, "res": if r.is_ok() { "ok" } else { "panic" }}));
        };
        call("add_assign_rows(1,0,0)", true, &mut |m| m.add_assign_rows(1, 0, 0));
        call("swap_rows(2,3)", true, &mut |m| m.swap_rows(2, 3));
        call("get(7,127)", true, &mut |m| { m.get(7, 127); });
        call("add_assign_rows(12,0,0)", false, &mut |m| m.add_assign_rows(12, 0, 0));
        call("add_assign_rows(0,12,0)", false, &mut |m| m.add_assign_rows(0, 12, 0));
        call("add_assign_rows(8,0,0)", false, &mut |m| m.add_assign_rows(8, 0, 0));
        call("swap_rows(0,12)", false, &mut |m| m.swap_rows(0, 12));
        call("set(12,127,1)", false, &mut |m| m.set(12, 127, Octet::one()));
        call("get(12,127)", false, &mut |m| { m.get(12, 127); });
        tr.emit(json!({"ev":"matdirect","matrix":name,"calls":calls}));
    }
    probe::<DenseBinaryMatrix>("dense", tr);
    probe::<SparseBinaryMatrix>("sparse", tr);
}

/// Every (dest, src) pair of small slabs - equal indices and indices one and two past the end included - is
/// requested from the public paired borrow directly, with and without a reorder mapping.  The call either refuses
/// (panic) or returns two slices; what is logged is the outcome, the hook's record and where the returned slices
/// really lie relative to the slab's storage.  Nothing is read or written through the returned slices.
fn direct(tr: &mut Trace) {
    use raptorq::SymbolSlab;
    crate::util::quiet_panics();
    for (count, ss) in [(1usize, 1usize), (2, 3), (3, 4), (4, 7), (5, 16), (3, 64)] {
        let ident: Vec<usize> = (0..count).collect();
        let rev: Vec<usize> = (0..count).rev().collect();
        let rot: Vec<usize> = (0..count).map(|i| (i + 1) % count).collect();
        for (mi, map) in [None, Some(rev), Some(rot)].into_iter().enumerate() {
            let mut slab = SymbolSlab::with_zeros(count, ss);
            let phys = map.clone().unwrap_or_else(|| ident.clone());
            if let Some(m) = &map {
                slab.set_reorder(m.clone());
            }
            // start of the slab's storage as it is now (a reorder may be a mapping or a physical permutation): the lowest symbol address
            let base = (0..count).map(|i| slab.get(i).as_ptr() as usize).min().unwrap();
            let mut calls = vec![];
            for dest in 0..count + 2 {
                for src in 0..count + 2 {
                    raptorq::verif::slab_observe(true);
                    let r = std::panic::catch_unwind(std::panic::AssertUnwindSafe(|| {
                        let (d, s) = slab.get_pair_mut(dest, src);
                        (d.as_ptr() as usize, d.len(), s.as_ptr() as usize, s.len())
                    }));
                    let evs = raptorq::verif::slab_take_events();
                    raptorq::verif::slab_observe(false);
                    let (res, ret) = match r {
                        Ok((dp, dl, sp, sl)) => ("ok", json!([dp as i64 - base as i64, dl, sp as i64 - base as i64, sl])),
                        Err(_) => ("panic", json!([])),
                    };
                    calls.push(json!({"dest":dest,"src":src,"res":res,"ret":ret,"hook":evs.iter().map(|p| p.to_vec()).collect::<Vec<_>>()}));
                }
            }
            tr.emit(json!({"ev":"direct","count":count,"ss":ss,"mapping":mi,"phys":phys,"calls":calls}));
        }
    }
}
