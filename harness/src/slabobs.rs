//! C12 (c): observe every paired borrow of SymbolSlab during encode / decode workloads.
use crate::util::{Opts, Trace};
use rand::{Rng, SeedableRng, rngs::StdRng};
use raptorq::{ObjectTransmissionInformation as Oti, SourceBlockDecoder, SourceBlockEncoder};
use serde_json::json;

pub fn run(o: &Opts) {
    let mut tr = Trace::create(&o.str("out", "slab.ndjson"));
    let seed = o.u64("seed", 1);
    let mut rng = StdRng::seed_from_u64(seed);
    tr.emit(json!({"ev":"meta","property":"C12","seed":seed}));
    for job in o.str("jobs", "10:4").split(';').filter(|s| !s.is_empty()) {
        let f: Vec<usize> = job.split(':').map(|x| x.parse().unwrap()).collect();
        let (k, t) = (f[0], f[1]);
        let data: Vec<u8> = (0..k * t).map(|_| rng.random()).collect();
        let cfg = Oti::new((k * t) as u64, t as u16, 1, 1, 1);
        raptorq::verif::slab_observe(true);
        // encode on both back-ends (direct solve), then decode from repair symbols only on both back-ends
        let enc = SourceBlockEncoder::verif_new_with(0, &cfg, &data, 0, false).unwrap();
        let _ = SourceBlockEncoder::verif_new_with(0, &cfg, &data, u32::MAX, true).unwrap();
        for thr in [0u32, u32::MAX] {
            let mut dec = SourceBlockDecoder::new(0, &cfg, (k * t) as u64);
            dec.set_sparse_threshold(thr);
            let mut pk = enc.repair_packets(0, (k + 2) as u32);
            pk.extend(enc.source_packets().into_iter().take(k / 3));
            let r = dec.decode(pk);
            assert!(r.is_none() || r.unwrap() == data);
        }
        let evs = raptorq::verif::slab_take_events();
        raptorq::verif::slab_observe(false);
        for chunk in evs.chunks(1500) {
            tr.emit(json!({"ev":"pairs","k":k,"t":t,"pairs":chunk.iter().map(|p| p.to_vec()).collect::<Vec<_>>()}));
        }
    }
    tr.emit(json!({"ev":"end"}));
    println!("events={}", tr.finish());
}
