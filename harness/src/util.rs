use rand::{Rng, rngs::StdRng};
use std::collections::HashMap;
use std::fs::File;
use std::io::{BufWriter, Write};

#[derive(Clone)]
pub struct Opts {
    map: HashMap<String, String>,
}

impl Opts {
    pub fn parse(args: &[String]) -> Opts {
        let mut map = HashMap::new();
        let mut i = 0;
        while i < args.len() {
            let k = args[i].trim_start_matches("--").to_string();
            if i + 1 < args.len() && !args[i + 1].starts_with("--") {
                map.insert(k, args[i + 1].clone());
                i += 2;
            } else {
                map.insert(k, "1".to_string());
                i += 1;
            }
        }
        Opts { map }
    }
    pub fn get(&self, k: &str) -> Option<&str> {
        self.map.get(k).map(|s| s.as_str())
    }
    pub fn str(&self, k: &str, d: &str) -> String {
        self.get(k).unwrap_or(d).to_string()
    }
    pub fn u64(&self, k: &str, d: u64) -> u64 {
        self.get(k).map(|s| s.parse().expect("integer option")).unwrap_or(d)
    }
    pub fn usize(&self, k: &str, d: usize) -> usize {
        self.u64(k, d as u64) as usize
    }
    pub fn flag(&self, k: &str) -> bool {
        self.map.contains_key(k)
    }
    pub fn thorough(&self) -> bool {
        self.get("tier") == Some("thorough")
    }
}

/// ndjson trace writer (one event per line).
pub struct Trace {
    w: BufWriter<File>,
    pub events: usize,
}

impl Trace {
    pub fn create(path: &str) -> Trace {
        Trace {
            w: BufWriter::new(File::create(path).expect("create trace file")),
            events: 0,
        }
    }
    pub fn emit(&mut self, v: serde_json::Value) {
        serde_json::to_writer(&mut self.w, &v).unwrap();
        self.w.write_all(b"\n").unwrap();
        self.events += 1;
    }
    pub fn finish(mut self) -> usize {
        self.w.flush().unwrap();
        self.events
    }
}

/// Run `f`, turning a panic of the code under test into data (the message), never into a tool failure.
pub fn catch<T, F: FnOnce() -> T + std::panic::UnwindSafe>(f: F) -> Result<T, String> {
    match std::panic::catch_unwind(f) {
        Ok(v) => Ok(v),
        Err(e) => {
            let msg = if let Some(s) = e.downcast_ref::<&str>() {
                s.to_string()
            } else if let Some(s) = e.downcast_ref::<String>() {
                s.clone()
            } else {
                "panic".to_string()
            };
            Err(msg)
        }
    }
}

pub static LAST_PANIC: std::sync::Mutex<String> = std::sync::Mutex::new(String::new());

/// Silence the default panic message but remember where the last panic happened, so that a panic of the code
/// under test that escapes a logged call can still be reported as such (and told apart from a driver bug).
pub fn quiet_panics() {
    std::panic::set_hook(Box::new(|info| {
        let loc = info.location().map(|l| format!("{}:{}", l.file(), l.line())).unwrap_or_default();
        let msg = if let Some(s) = info.payload().downcast_ref::<&str>() {
            s.to_string()
        } else if let Some(s) = info.payload().downcast_ref::<String>() {
            s.clone()
        } else {
            "panic".to_string()
        };
        if let Ok(mut g) = LAST_PANIC.lock() {
            // keep the first panic raised inside the code under test; later panics (e.g. a scope re-raising it) do not overwrite it
            if !g.starts_with("/repo/") {
                *g = format!("{loc} {msg}");
            }
        }
    }));
}

/// u64 as little-endian base-4096 limbs (TLC integers are 32-bit).
pub fn limbs(mut v: u64) -> Vec<u64> {
    let mut out = vec![];
    for _ in 0..6 {
        out.push(v & 0xFFF);
        v >>= 12;
    }
    out
}

pub fn from_limbs(l: &[u64]) -> u64 {
    let mut v = 0u64;
    for (i, x) in l.iter().enumerate() {
        v |= x << (12 * i);
    }
    v
}

/// Structured data: every symbol is, at random, random bytes, all zero, one constant byte, a 2/4/8-byte repeating
/// pattern, or a copy of an earlier symbol ("all data pairs" includes the values a value-dependent short-cut treats
/// specially; random bytes practically never hit them).
pub fn structured(rng: &mut StdRng, k: usize, t: usize) -> Vec<u8> {
    let mut d = vec![0u8; k * t];
    for i in 0..k {
        match rng.random_range(0..7) {
            0 | 1 => (0..t).for_each(|j| d[i * t + j] = rng.random()),
            2 => {}
            3 => {
                let c: u8 = *[0x20u8, 0xff, 0x01, 0x80].get(rng.random_range(0..4)).unwrap();
                (0..t).for_each(|j| d[i * t + j] = c)
            }
            4 | 5 => {
                let p = [2usize, 4, 8][rng.random_range(0..3)];
                let pat: Vec<u8> = (0..p).map(|_| rng.random()).collect();
                (0..t).for_each(|j| d[i * t + j] = pat[j % p])
            }
            _ => {
                if i > 0 {
                    let s = rng.random_range(0..i);
                    (0..t).for_each(|j| d[i * t + j] = d[s * t + j])
                }
            }
        }
    }
    d
}


/// Object bytes made of runs (random length 1..40) of random bytes, zeros or one constant byte.
pub fn runs_data(rng: &mut StdRng, f: usize) -> Vec<u8> {
    let mut d = Vec::with_capacity(f);
    while d.len() < f {
        let n = rng.random_range(1..=40usize).min(f - d.len());
        match rng.random_range(0..4) {
            0 | 1 => (0..n).for_each(|_| d.push(rng.random())),
            2 => d.extend(std::iter::repeat(0u8).take(n)),
            _ => {
                let c: u8 = rng.random();
                d.extend(std::iter::repeat(c).take(n))
            }
        }
    }
    d
}
