//! C01 / C02 / C08: drive the real object and block decoders through generated arrival histories and log every
//! call with its result.  No verdict is computed here: TLC validates the log against spec/Codec.tla.
use crate::util::{Opts, Trace, catch};
use rand::{Rng, SeedableRng, rngs::StdRng, seq::SliceRandom};
use raptorq::{Decoder, Encoder, EncodingPacket, ObjectTransmissionInformation as Oti, SourceBlockDecoder};
use serde_json::{Value, json};
use std::panic::AssertUnwindSafe;

pub fn object_data(seed: u64, f: usize) -> Vec<u8> {
    let mut rng = StdRng::seed_from_u64(seed ^ 0xD1CE ^ ((f as u64) << 16));
    // data kinds by (seed, F): random bytes (half of the cases), runs of zero / constant / random bytes, and objects whose
    // source blocks are byte-identical (all zero, one constant byte, a 16-byte period) - content a value- or
    // content-dependent short-cut treats specially
    match (seed ^ f as u64) % 8 {
        0 | 1 => return crate::util::runs_data(&mut rng, f),
        2 => return vec![0u8; f],
        3 => return vec![0xA5u8; f],
        4 => {
            let pat: Vec<u8> = (0..16).map(|_| rng.random()).collect();
            return (0..f).map(|i| pat[i % 16]).collect();
        }
        _ => {}
    }
    (0..f).map(|_| rng.random()).collect()
}

fn block_ks(f: u64, t: u64, z: u64) -> Vec<u32> {
    let kt = f.div_ceil(t);
    let (il, is, jl) = (kt.div_ceil(z), kt / z, kt - (kt / z) * z);
    (0..z).map(|b| if b < jl { il as u32 } else { is as u32 }).collect()
}

/// per block: (source packets, repair packets) for the ESI universe of this scenario
fn universe(enc: &Encoder, ks: &[u32], rng: &mut StdRng, nrep: usize) -> Vec<(Vec<EncodingPacket>, Vec<EncodingPacket>)> {
    enc.get_block_encoders()
        .iter()
        .enumerate()
        .map(|(b, be)| {
            let k = ks[b];
            let mut rep = be.repair_packets(0, nrep as u32);
            for _ in 0..3 {
                let s = rng.random_range(nrep as u32..(1 << 24) - k);
                rep.extend(be.repair_packets(s, 1));
            }
            rep.extend(be.repair_packets((1 << 24) - 1 - k, 1));
            (be.source_packets(), rep)
        })
        .collect()
}

/// choose a packet subset of one block; kinds sit on the decoding threshold
fn choose_subset(src: &[EncodingPacket], rep: &[EncodingPacket], rng: &mut StdRng) -> Vec<EncodingPacket> {
    let k = src.len();
    let mut s: Vec<EncodingPacket> = src.to_vec();
    let mut r: Vec<EncodingPacket> = rep.to_vec();
    s.shuffle(rng);
    r.shuffle(rng);
    match rng.random_range(0..6) {
        0 => s, // all source symbols, no repair
        1 => {
            // drop 1..3 source symbols, total exactly K + x
            let drop = rng.random_range(1..=3.min(k));
            let x = rng.random_range(0..=2usize);
            s.truncate(k - drop);
            s.extend(r.into_iter().take(drop + x));
            s
        }
        2 => {
            // repair only, K + x (x may be -1: undecodable)
            let x = rng.random_range(0..=3usize);
            let n = (k + x).saturating_sub(1).min(r.len());
            r.truncate(n);
            r
        }
        3 => {
            // one source symbol missing and exactly K symbols: the classic 99% case
            s.truncate(k - 1);
            s.extend(r.into_iter().take(1));
            s
        }
        4 => {
            // random mixture of arbitrary size
            let mut all: Vec<EncodingPacket> = s.into_iter().chain(r).collect();
            all.shuffle(rng);
            let n = rng.random_range(0..=all.len());
            all.truncate(n);
            all
        }
        _ => {
            // too few symbols
            let n = rng.random_range(0..k.max(1));
            let mut all: Vec<EncodingPacket> = s.into_iter().chain(r).collect();
            all.shuffle(rng);
            all.truncate(n);
            all
        }
    }
}

fn pkid(p: &EncodingPacket) -> Value {
    json!([p.payload_id().source_block_number(), p.payload_id().encoding_symbol_id()])
}

struct ObjDec {
    id: u32,
    dec: Decoder,
}

thread_local! {
    /// expected bytes of the current configuration, used only to abbreviate large outputs (> 2 KiB) to
    /// an equality flag + length; small outputs are logged in full and compared by TLC
    static EXPECT: std::cell::RefCell<Vec<u8>> = const { std::cell::RefCell::new(Vec::new()) };
}

fn set_out(ev: &mut Value, out: Vec<u8>, block_slice: Option<(usize, usize)>) {
    if out.len() <= 2048 {
        ev["out"] = json!(out);
    } else {
        let eq = EXPECT.with(|e| {
            let e = e.borrow();
            match block_slice {
                None => out == *e,
                Some((start, len)) => {
                    let mut want = vec![0u8; len];
                    let end = (start + len).min(e.len());
                    if start < end {
                        want[..end - start].copy_from_slice(&e[start..end]);
                    }
                    out == want
                }
            }
        });
        ev["out_eq"] = json!(eq);
        ev["out_len"] = json!(out.len());
    }
}

fn deliver_obj(tr: &mut Trace, d: &mut ObjDec, p: &EncodingPacket, api_add: bool) {
    let b = p.payload_id().source_block_number() as usize;
    let mut ev = json!({"ev":"deliver","dec":d.id,"pk":[pkid(p)],"api": if api_add {"add"} else {"decode"}});
    let pc = p.clone();
    if api_add {
        match catch(AssertUnwindSafe(|| d.dec.add_new_packet(pc))) {
            Ok(()) => ev["res"] = json!("na"),
            Err(m) => {
                ev["res"] = json!("panic");
                ev["msg"] = json!(m);
            }
        }
    } else {
        match catch(AssertUnwindSafe(|| d.dec.decode(pc))) {
            Ok(Some(out)) => {
                ev["res"] = json!("some");
                set_out(&mut ev, out, None);
            }
            Ok(None) => ev["res"] = json!("none"),
            Err(m) => {
                ev["res"] = json!("panic");
                ev["msg"] = json!(m);
            }
        }
    }
    ev["blockdone"] = json!(d.dec.verif_blocks_done()[b]);
    tr.emit(ev);
}

fn get_obj(tr: &mut Trace, d: &ObjDec) {
    let mut ev = json!({"ev":"get","dec":d.id});
    match catch(AssertUnwindSafe(|| d.dec.get_result())) {
        Ok(Some(out)) => {
            ev["res"] = json!("some");
            set_out(&mut ev, out, None);
        }
        Ok(None) => ev["res"] = json!("none"),
        Err(m) => {
            ev["res"] = json!("panic");
            ev["msg"] = json!(m);
        }
    }
    tr.emit(ev);
}

/// configs: "F:T:Z:N:Al;..."
pub fn run_object(o: &Opts) {
    crate::util::quiet_panics();
    let mut tr = Trace::create(&o.str("out", "codec.ndjson"));
    let seed = o.u64("seed", 1);
    let mut rng = StdRng::seed_from_u64(seed);
    let subsets = o.usize("subsets", 3);
    let perms = o.usize("perms", 2);
    tr.emit(json!({"ev":"meta","property":o.str("property","C01"),"seed":seed,"mode":"object"}));
    let mut next_dec = 0u32;
    for (ci, c) in o.str("configs", "20:4:1:1:1").split(';').filter(|s| !s.is_empty()).enumerate() {
        let v: Vec<u64> = c.split(':').map(|x| x.parse().unwrap()).collect();
        let (f, t, z, n, al) = (v[0], v[1], v[2], v[3], v[4]);
        let data = object_data(seed + ci as u64, f as usize);
        let oti = Oti::new(f, t as u16, z as u8, n as u16, al as u8);
        let enc = Encoder::new(&data, oti);
        let ks = block_ks(f, t, z);
        EXPECT.with(|e| *e.borrow_mut() = data.clone());
        tr.emit(json!({"ev":"cfg","id":ci,"f":f,"t":t,"z":z,"n":n,"al":al,"data": if f <= 2048 { json!(data) } else { json!([]) },"ks":ks}));
        let kmax = *ks.iter().max().unwrap() as usize;
        let uni = universe(&enc, &ks, &mut rng, (kmax / 2).max(6));
        let sparse = o.get("sparse").map(|s| s.parse::<u32>().unwrap());
        for _ in 0..subsets {
            // one packet multiset, several histories of it
            let chosen: Vec<Vec<EncodingPacket>> = uni.iter().map(|(s, r)| choose_subset(s, r, &mut rng)).collect();
            for h in 0..perms {
                let mut seq: Vec<EncodingPacket> = chosen.iter().flatten().cloned().collect();
                match h % 3 {
                    0 => seq.shuffle(&mut rng),                   // fully interleaved
                    1 => {
                        // block by block, each block shuffled
                        seq.clear();
                        let mut order: Vec<usize> = (0..chosen.len()).collect();
                        order.shuffle(&mut rng);
                        for b in order {
                            let mut part = chosen[b].clone();
                            part.shuffle(&mut rng);
                            seq.extend(part);
                        }
                    }
                    _ => seq.reverse(),
                }
                // duplicates
                let mut with_dups = vec![];
                for p in seq {
                    with_dups.push(p.clone());
                    if rng.random_bool(0.2) {
                        with_dups.push(p);
                    }
                }
                if !with_dups.is_empty() && rng.random_bool(0.5) {
                    let again = with_dups[rng.random_range(0..with_dups.len())].clone();
                    with_dups.push(again);
                }
                let api_add = h % 2 == 1;
                let mut d = ObjDec { id: next_dec, dec: Decoder::new(oti) };
                if let Some(s) = sparse {
                    d.dec.set_sparse_threshold(s);
                }
                next_dec += 1;
                tr.emit(json!({"ev":"new","dec":d.id,"kind":"object"}));
                let clone_at = if rng.random_bool(0.6) && !with_dups.is_empty() { Some(rng.random_range(0..with_dups.len())) } else { None };
                let mut clone: Option<ObjDec> = None;
                let mut clone_rest: Vec<EncodingPacket> = vec![];
                for (i, p) in with_dups.iter().enumerate() {
                    if Some(i) == clone_at {
                        let c2 = ObjDec { id: next_dec, dec: d.dec.clone() };
                        next_dec += 1;
                        tr.emit(json!({"ev":"clone","dec":d.id,"to":c2.id}));
                        clone = Some(c2);
                    }
                    deliver_obj(&mut tr, &mut d, p, api_add);
                    if clone.is_some() {
                        clone_rest.push(p.clone());
                    }
                    if api_add && rng.random_bool(0.3) {
                        get_obj(&mut tr, &d);
                    }
                }
                get_obj(&mut tr, &d);
                // the clone continues with the same remaining packets in the opposite order through the other API
                if let Some(mut c2) = clone {
                    for p in clone_rest.iter().rev() {
                        deliver_obj(&mut tr, &mut c2, p, !api_add);
                    }
                    get_obj(&mut tr, &c2);
                }
                // continuation: extra packets after the end (also after completion), then every source packet
                let all: Vec<&EncodingPacket> = uni.iter().flat_map(|(s, r)| s.iter().chain(r.iter())).collect();
                for _ in 0..5 {
                    let p = all[rng.random_range(0..all.len())];
                    deliver_obj(&mut tr, &mut d, p, false);
                }
                if h == 0 {
                    let mut src: Vec<&EncodingPacket> = uni.iter().flat_map(|(s, _)| s.iter()).collect();
                    src.shuffle(&mut rng);
                    for p in src {
                        deliver_obj(&mut tr, &mut d, p, api_add);
                    }
                    get_obj(&mut tr, &d);
                }
            }
        }
    }
    tr.emit(json!({"ev":"end"}));
    println!("events={}", tr.finish());
}

fn deliver_block(tr: &mut Trace, id: u32, dec: &mut SourceBlockDecoder, batch: &[EncodingPacket]) -> bool {
    let mut ev = json!({"ev":"deliver","dec":id,"pk":batch.iter().map(pkid).collect::<Vec<_>>(),"api":"block"});
    let b2 = batch.to_vec();
    let mut some = false;
    match catch(AssertUnwindSafe(|| dec.decode(b2))) {
        Ok(Some(out)) => {
            ev["res"] = json!("some");
            let n = out.len();
            set_out(&mut ev, out, Some((0, n)));
            some = true;
        }
        Ok(None) => ev["res"] = json!("none"),
        Err(m) => {
            ev["res"] = json!("panic");
            ev["msg"] = json!(m);
        }
    }
    tr.emit(ev);
    some
}

/// blocks: "K:T;..."  - sequences that sit on the decoding threshold, one packet at a time and in batches
pub fn run_block(o: &Opts) {
    crate::util::quiet_panics();
    let mut tr = Trace::create(&o.str("out", "block.ndjson"));
    let seed = o.u64("seed", 1);
    let mut rng = StdRng::seed_from_u64(seed);
    let seqs = o.usize("seqs", 6);
    tr.emit(json!({"ev":"meta","property":o.str("property","C02"),"seed":seed,"mode":"block"}));
    let mut next_dec = 0u32;
    for (ci, c) in o.str("blocks", "10:1").split(';').filter(|s| !s.is_empty()).enumerate() {
        let v: Vec<u64> = c.split(':').map(|x| x.parse().unwrap()).collect();
        let (k, t) = (v[0] as usize, v[1] as usize);
        let f = (k * t) as u64;
        let data = object_data(seed + ci as u64, f as usize);
        let oti = Oti::new(f, t as u16, 1, 1, 1);
        let enc = Encoder::new(&data, oti);
        let be = &enc.get_block_encoders()[0];
        let kp = raptorq::extended_source_block_symbols(k as u32) as usize;
        let h = raptorq::verif::num_hdpc_symbols(k as u32) as usize;
        EXPECT.with(|e| *e.borrow_mut() = data.clone());
        tr.emit(json!({"ev":"cfg","id":ci,"f":f,"t":t,"z":1,"n":1,"al":1,"data": if f <= 2048 { json!(data) } else { json!([]) },"ks":[k]}));
        let src = be.source_packets();
        for s in 0..seqs {
            // repair pool: a window right after K, scattered 24-bit ESIs and the last one
            let mut rep = be.repair_packets(0, (kp + h + 8) as u32);
            for _ in 0..6 {
                let st = rng.random_range(1000..(1u32 << 24) - k as u32);
                rep.extend(be.repair_packets(st, 1));
            }
            rep.extend(be.repair_packets((1 << 24) - 1 - k as u32, 1));
            rep.shuffle(&mut rng);
            let mut sh = src.clone();
            sh.shuffle(&mut rng);
            let mut dec = SourceBlockDecoder::new(0, &oti, f);
            dec.set_sparse_threshold(if s % 2 == 0 { 0 } else { u32::MAX });
            let id = next_dec;
            next_dec += 1;
            tr.emit(json!({"ev":"new","dec":id,"kind":"block","sbn":0,"sparse": s % 2 == 0}));
            match s % 4 {
                0 | 1 => {
                    // threshold walk: nsrc source symbols, repair up to exactly K, then one at a time up to K+3
                    let nsrc = if s % 4 == 0 { rng.random_range(0..k) } else { k - 1 };
                    let mut seq: Vec<EncodingPacket> = sh[..nsrc].to_vec();
                    seq.extend(rep.iter().take(k - nsrc + 3).cloned());
                    // first K-1 as one batch (cheap: below threshold), the rest singly
                    let head = k.saturating_sub(1).min(seq.len());
                    if head > 0 {
                        deliver_block(&mut tr, id, &mut dec, &seq[..head]);
                    }
                    for p in &seq[head..] {
                        deliver_block(&mut tr, id, &mut dec, std::slice::from_ref(p));
                    }
                }
                2 => {
                    // long tail in one batch with a source symbol missing: the GF(2)-only attempt (S + received >= L) runs
                    let nsrc = rng.random_range(0..k);
                    let total = kp + h - (kp - k) + rng.random_range(0..4);
                    let mut seq: Vec<EncodingPacket> = sh[..nsrc].to_vec();
                    seq.extend(rep.iter().take(total - nsrc).cloned());
                    seq.shuffle(&mut rng);
                    deliver_block(&mut tr, id, &mut dec, &seq);
                    deliver_block(&mut tr, id, &mut dec, &seq[..1]);   // duplicate delivery after the answer
                }
                _ => {
                    // exactly K symbols at once, repair only; then the missing ones singly
                    let seq: Vec<EncodingPacket> = rep.iter().take(k).cloned().collect();
                    let done = deliver_block(&mut tr, id, &mut dec, &seq);
                    if !done {
                        for p in rep.iter().skip(k).take(2) {
                            deliver_block(&mut tr, id, &mut dec, std::slice::from_ref(p));
                        }
                    }
                    // and all source symbols (case 2 path)
                    deliver_block(&mut tr, id, &mut dec, &src);
                }
            }
        }
        // batches with duplicates inside (the property speaks of multisets): a batch whose LAST packet is a duplicate while
        // an earlier one is new, on a decoder that has not solved yet and on one whose previous solve failed
        for dsc in 0..o.usize("dups", 0) {
            let rep = be.repair_packets(rng.random_range(0..500), (k + 40) as u32);
            let mut sh = src.clone();
            sh.shuffle(&mut rng);
            let sparse = dsc % 2 == 0;
            let mk = |tr: &mut Trace, next_dec: &mut u32| -> (u32, SourceBlockDecoder) {
                let mut dec = SourceBlockDecoder::new(0, &oti, f);
                dec.set_sparse_threshold(if sparse { 0 } else { u32::MAX });
                let id = *next_dec;
                *next_dec += 1;
                tr.emit(json!({"ev":"new","dec":id,"kind":"block","sbn":0,"sparse": sparse}));
                (id, dec)
            };
            if dsc % 3 != 2 {
                // K-1 symbols with a source symbol missing, then [new, duplicate] (or [duplicate, new]) in one call
                let nsrc = if k > 1 { rng.random_range(0..k) } else { 0 };
                let mut first: Vec<EncodingPacket> = sh[..nsrc.min(k.saturating_sub(1))].to_vec();
                first.extend(rep.iter().take(k.saturating_sub(1) - first.len()).cloned());
                let newp = rep[k + 3].clone();
                let (id, mut dec) = mk(&mut tr, &mut next_dec);
                if !first.is_empty() {
                    deliver_block(&mut tr, id, &mut dec, &first);
                }
                let dup = first.first().cloned().unwrap_or_else(|| newp.clone());
                let batch = if dsc % 3 == 0 { vec![newp.clone(), dup.clone()] } else { vec![dup.clone(), newp.clone()] };
                deliver_block(&mut tr, id, &mut dec, &batch);
                deliver_block(&mut tr, id, &mut dec, &[dup]);
            } else {
                // look for a K-subset the decoder cannot solve, deliver it, then [new, duplicate] in one call, then everything again
                let mut found: Option<Vec<EncodingPacket>> = None;
                for _ in 0..400 {
                    let mut pool: Vec<EncodingPacket> = sh.iter().take(k.saturating_sub(1)).cloned().chain(rep.iter().cloned()).collect();
                    pool.shuffle(&mut rng);
                    pool.truncate(k);
                    let mut probe = SourceBlockDecoder::new(0, &oti, f);
                    if pool.iter().any(|p| p.payload_id().encoding_symbol_id() >= k as u32) && probe.decode(pool.clone()).is_none() {
                        found = Some(pool);
                        break;
                    }
                }
                if let Some(set) = found {
                    let (id, mut dec) = mk(&mut tr, &mut next_dec);
                    deliver_block(&mut tr, id, &mut dec, &set);
                    let have: std::collections::HashSet<u32> = set.iter().map(|p| p.payload_id().encoding_symbol_id()).collect();
                    let newp = rep.iter().find(|p| !have.contains(&p.payload_id().encoding_symbol_id())).unwrap().clone();
                    deliver_block(&mut tr, id, &mut dec, &[newp.clone(), set[0].clone()]);
                    let mut again = set.clone();
                    again.push(newp);
                    deliver_block(&mut tr, id, &mut dec, &again);
                }
            }
        }
        // cross sets: one received set of K+o symbols (o = 0..3) decoded three ways - sparse back-end in one batch,
        // dense back-end in one batch in another order, sparse back-end with the last symbols one at a time.  For block
        // sizes above the rank oracle's reach the specification still demands one outcome per set and the original bytes.
        for c in 0..o.usize("cross", 0) {
            let mut rep = be.repair_packets(rng.random_range(0..2000), (k + 8) as u32);
            rep.extend(be.repair_packets((1 << 24) - 1 - k as u32, 1));
            rep.shuffle(&mut rng);
            let mut sh = src.clone();
            sh.shuffle(&mut rng);
            let nsrc = match c % 3 { 0 => rng.random_range(0..k), 1 => k - 1 - rng.random_range(0..k.min(4)), _ => 0 };
            let mut set: Vec<EncodingPacket> = sh[..nsrc].to_vec();
            set.extend(rep.iter().take(k + (c % 4) - nsrc).cloned());
            for way in 0..3 {
                let mut dec = SourceBlockDecoder::new(0, &oti, f);
                dec.set_sparse_threshold(if way == 1 { u32::MAX } else { 0 });
                let id = next_dec;
                next_dec += 1;
                tr.emit(json!({"ev":"new","dec":id,"kind":"block","sbn":0,"sparse": way != 1}));
                let mut seq = set.clone();
                if way > 0 {
                    seq.shuffle(&mut rng);
                }
                if way == 2 && seq.len() > 3 {
                    let head = seq.len() - 3;
                    deliver_block(&mut tr, id, &mut dec, &seq[..head]);
                    for p in &seq[head..] {
                        deliver_block(&mut tr, id, &mut dec, std::slice::from_ref(p));
                    }
                } else {
                    deliver_block(&mut tr, id, &mut dec, &seq);
                }
            }
        }
    }
    tr.emit(json!({"ev":"end"}));
    println!("events={}", tr.finish());
}

/// helper used once while writing MC_Codec: small undecodable sets (found with the implementation, then
/// confirmed by TLC's own rank computation - the spec does not trust this search)
pub fn find_fail(o: &Opts) {
    let k = o.usize("k", 1);
    let lim = o.u64("lim", 3000) as u32;
    let data = object_data(7, k);
    let oti = Oti::new(k as u64, 1, 1, 1, 1);
    let enc = Encoder::new(&data, oti);
    let be = &enc.get_block_encoders()[0];
    let src = be.source_packets();
    let rep = be.repair_packets(0, lim);
    let mut found = 0;
    if k == 1 {
        for r in &rep {
            let mut dec = SourceBlockDecoder::new(0, &oti, k as u64);
            if dec.decode(vec![r.clone()]).is_none() {
                println!("K=1 undecodable {{{}}}", r.payload_id().encoding_symbol_id());
                found += 1;
                if found > 5 { break; }
            }
        }
    } else {
        'outer: for (i, a) in rep.iter().enumerate() {
            for s in src.iter().chain(rep[..i].iter()) {
                let mut dec = SourceBlockDecoder::new(0, &oti, k as u64);
                if dec.decode(vec![a.clone(), s.clone()]).is_none() {
                    println!("K=2 undecodable {{{}, {}}}", s.payload_id().encoding_symbol_id(), a.payload_id().encoding_symbol_id());
                    found += 1;
                    if found > 5 { break 'outer; }
                }
            }
        }
    }
}

/// spec -> impl: replay behaviours generated by TLC from MC_Codec (blocks K = (2, 1), T = 1; packets named by
/// (SBN, ESI)) on real decoders and compare, after every call, the reconstructed flags and the answer.
pub fn replay(o: &Opts) {
    use std::io::BufRead;
    crate::util::quiet_panics();
    let input = std::io::BufReader::new(std::fs::File::open(o.str("in", "behaviours.ndjson")).unwrap());
    let mut out = Trace::create(&o.str("out", "results.ndjson"));
    let data: Vec<u8> = vec![0xA7, 0x3C, 0x5E];
    let oti = Oti::new(3, 1, 2, 1, 1);
    let enc = Encoder::new(&data, oti);
    let ks = [2u32, 1u32];
    let packet = |b: usize, esi: u32| -> EncodingPacket {
        let be = &enc.get_block_encoders()[b];
        if esi < ks[b] { be.source_packets()[esi as usize].clone() } else { be.repair_packets(esi - ks[b], 1).pop().unwrap() }
    };
    let (mut n, mut bad, mut steps) = (0, 0, 0);
    for line in input.lines() {
        let line = line.unwrap();
        if line.trim().is_empty() {
            continue;
        }
        let c: Value = serde_json::from_str(&line).unwrap();
        n += 1;
        let mut decs: std::collections::HashMap<u64, Decoder> = Default::default();
        decs.insert(1, Decoder::new(oti));
        let mut mism: Vec<String> = vec![];
        for (i, st) in c["steps"].as_array().unwrap().iter().enumerate() {
            steps += 1;
            let d = st["dec"].as_u64().unwrap();
            if st["op"] == "clone" {
                let cl = decs[&d].clone();
                decs.insert(st["to"].as_u64().unwrap(), cl);
                continue;
            }
            let (b, e) = (st["sbn"].as_u64().unwrap() as usize, st["esi"].as_u64().unwrap() as u32);
            let dec = decs.get_mut(&d).unwrap();
            let r = catch(AssertUnwindSafe(|| {
                let ans = dec.decode(packet(b, e));
                (ans, dec.verif_blocks_done())
            }));
            match r {
                Ok((ans, done)) => {
                    let want_memo: Vec<bool> = st["memo"].as_array().unwrap().iter().map(|x| x.as_bool().unwrap()).collect();
                    if done != want_memo {
                        mism.push(format!("step {i}: reconstructed blocks {done:?}, specification {want_memo:?}"));
                    }
                    match (ans, st["answer"].as_bool().unwrap()) {
                        (Some(bytes), true) => {
                            if bytes != data {
                                mism.push(format!("step {i}: wrong object {bytes:?}"));
                            }
                        }
                        (None, false) => {}
                        (a, w) => mism.push(format!("step {i}: answered {} but the specification says {}", a.is_some(), w)),
                    }
                }
                Err(m) => mism.push(format!("step {i}: panic {m}")),
            }
            if !mism.is_empty() {
                break;
            }
        }
        if !mism.is_empty() {
            bad += 1;
            out.emit(json!({"case": c, "got": Value::Null, "mismatch": mism}));
        }
    }
    out.finish();
    println!("cases={n} mismatches={bad} steps={steps}");
}
