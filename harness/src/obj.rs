//! C19 / C14 / C13 / C05: object-level parameters. `objreplay` replays TLC-generated cases (spec -> impl) and
//! reports every disagreement; `objlog` logs the results of random calls for trace validation (impl -> spec).
use crate::util::{Opts, Trace, catch, from_limbs, limbs};
use rand::{Rng, SeedableRng, rngs::StdRng};
use raptorq::ObjectTransmissionInformation as Oti;
use serde_json::{Value, json};
use std::io::{BufRead, BufReader};

fn lv(v: &Value) -> u64 {
    from_limbs(&v.as_array().unwrap().iter().map(|x| x.as_u64().unwrap()).collect::<Vec<_>>())
}

fn try_new(f: u64, t: u16, z: u8, n: u16, al: u8) -> Result<Oti, String> {
    catch(move || Oti::new(f, t, z, n, al))
}

fn oti_json(o: &Oti) -> Value {
    json!({"f": limbs(o.transfer_length()), "t": o.symbol_size(), "z": o.source_blocks(),
           "n": o.sub_blocks(), "al": o.symbol_alignment()})
}

fn eval_case(c: &Value) -> (Value, Vec<String>) {
    let mut mism: Vec<String> = vec![];
    let mut got = json!(null);
    match c["kind"].as_str().unwrap() {
        "accept" => {
            let (f, t, z, nn, al) = (lv(&c["f"]), c["t"].as_u64().unwrap() as u16, c["z"].as_u64().unwrap() as u8,
                                     c["n"].as_u64().unwrap() as u16, c["al"].as_u64().unwrap() as u8);
            let r = try_new(f, t, z, nn, al);
            let want = c["accept"].as_bool().unwrap();
            match &r {
                Ok(oti) => {
                    got = json!({"accepted": true, "oti": oti_json(oti)});
                    if !want {
                        mism.push("accepted a configuration that violates a limit".into());
                    }
                    if oti.transfer_length() != f || oti.symbol_size() != t || oti.source_blocks() != z
                        || oti.sub_blocks() != nn || oti.symbol_alignment() != al {
                        mism.push("accessors do not echo the arguments".into());
                    }
                }
                Err(m) => {
                    got = json!({"accepted": false, "msg": m});
                    if want {
                        mism.push("refused a configuration within all limits".into());
                    }
                }
            }
        }
        "derive" => {
            let (f, p, ws) = (lv(&c["f"]), c["p"].as_u64().unwrap() as u16, lv(&c["ws"]));
            let valid = c["valid"].as_bool().unwrap();
            let r = catch(move || raptorq::verif::derive_parameters(f, p, ws));
            got = match &r {
                Ok(oti) => json!({"res":"ok","oti":oti_json(oti)}),
                Err(m) => json!({"res":"panic","msg":m}),
            };
            if valid {
                let want = (c["t"].as_u64().unwrap(), c["z"].as_u64().unwrap(), c["n"].as_u64().unwrap(), c["al"].as_u64().unwrap());
                let same = |o: &Oti| (o.symbol_size() as u64, o.source_blocks() as u64, o.sub_blocks() as u64, o.symbol_alignment() as u64) == want && o.transfer_length() == f;
                match &r {
                    Ok(oti) => {
                        if !same(oti) {
                            mism.push("derived parameters differ from RFC 6330 4.3".into());
                        }
                    }
                    Err(_) => mism.push("derivation panicked although a valid configuration exists".into()),
                }
                if ws == 10 * 1024 * 1024 {
                    match catch(move || Oti::with_defaults(f, p)) {
                        Ok(oti) => if !same(&oti) { mism.push("with_defaults differs from RFC 6330 4.3".into()); },
                        Err(m) => mism.push(format!("with_defaults panicked: {m}")),
                    }
                }
                if f <= 256 * 1024 {
                    // public route: builder -> encoder -> config, then round trip through the decoder
                    let data: Vec<u8> = (0..f).map(|i| (i.wrapping_mul(2654435761) >> 7) as u8).collect();
                    let d2 = data.clone();
                    let rt = catch(move || {
                        let mut b = raptorq::EncoderBuilder::new();
                        b.set_decoder_memory_requirement(ws);
                        b.set_max_packet_size(p);
                        let enc = b.build(&d2);
                        let cfg = enc.get_config();
                        let mut dec = raptorq::Decoder::new(cfg);
                        let mut res = None;
                        for pk in enc.get_encoded_packets(0) {
                            res = dec.decode(pk);
                        }
                        (cfg, res)
                    });
                    // the same builder object used for several objects with the settings changed in between (budget lowered,
                    // raised, restored): what it derives must depend on its current settings only
                    if f <= 16 * 1024 {
                        let d3 = data.clone();
                        let hist = catch(move || {
                            // three histories on one builder each: budget ending with a decrease, ending with an increase,
                            // and the packet size changed and restored; all end on (p, ws)
                            let mut lasts = vec![];
                            for hist in [[(p, ws / 4), (p, ws / 2), (p, ws.saturating_mul(2)), (p, ws)],
                                         [(p, ws.saturating_mul(2)), (p, ws / 4), (p, ws / 2), (p, ws)],
                                         [(p, ws), (p / 2, ws), (p.saturating_add(p / 2), ws), (p, ws)]] {
                                let mut b = raptorq::EncoderBuilder::new();
                                let mut last = None;
                                for (pp, w) in hist {
                                    b.set_max_packet_size(pp);
                                    b.set_decoder_memory_requirement(w);
                                    let bb = std::panic::AssertUnwindSafe(&b);
                                    let d = &d3;
                                    last = std::panic::catch_unwind(move || bb.build(d).get_config()).ok();
                                }
                                lasts.push(last);
                            }
                            lasts
                        });
                        match hist {
                            Ok(lasts) => {
                                for (hi, l) in lasts.iter().enumerate() {
                                    match l {
                                        Some(cfg) => if !same(cfg) { mism.push(format!("EncoderBuilder reused with changed settings (history {hi}) derives parameters that differ from RFC 6330 4.3 for its current settings")); },
                                        None => mism.push(format!("EncoderBuilder reused with changed settings (history {hi}) panicked on the last (valid) setting")),
                                    }
                                }
                            }
                            Err(m) => mism.push(format!("EncoderBuilder history route panicked: {m}")),
                        }
                    }
                    match rt {
                        Ok((cfg, res)) => {
                            if !same(&cfg) { mism.push("EncoderBuilder config differs from RFC 6330 4.3".into()); }
                            if res.as_deref() != Some(&data[..]) { mism.push("round trip through derived parameters failed".into()); }
                        }
                        Err(m) => mism.push(format!("EncoderBuilder route panicked: {m}")),
                    }
                }
            }
        }
        "wire" => {
            let bytes_of = |v: &Value| -> Vec<u8> { v.as_array().unwrap().iter().map(|x| x.as_u64().unwrap() as u8).collect() };
            match c["what"].as_str().unwrap() {
                "pid" => {
                    let (sbn, esi) = (c["sbn"].as_u64().unwrap() as u8, c["esi"].as_u64().unwrap() as u32);
                    let want = bytes_of(&c["bytes"]);
                    let r = catch(move || {
                        let id = raptorq::PayloadId::new(sbn, esi);
                        let ser = id.serialize();
                        let de = raptorq::PayloadId::deserialize(&ser);
                        (ser, de.source_block_number(), de.encoding_symbol_id(), id.source_block_number(), id.encoding_symbol_id())
                    });
                    match r {
                        Ok((ser, dsbn, desi, asbn, aesi)) => {
                            got = json!({"ser": ser.to_vec(), "de": [dsbn, desi]});
                            if ser.to_vec() != want { mism.push("payload id bytes differ from RFC 6330 3.2".into()); }
                            if (dsbn, desi) != (sbn, esi) || (asbn, aesi) != (sbn, esi) { mism.push("payload id does not round-trip".into()); }
                        }
                        Err(m) => mism.push(format!("panic: {m}")),
                    }
                }
                "pidbuf" => {
                    let buf = bytes_of(&c["buf"]);
                    let arr = [buf[0], buf[1], buf[2], buf[3]];
                    let id = raptorq::PayloadId::deserialize(&arr);
                    got = json!({"de": [id.source_block_number(), id.encoding_symbol_id()], "reser": id.serialize().to_vec()});
                    if id.source_block_number() as u64 != c["sbn"].as_u64().unwrap() || id.encoding_symbol_id() as u64 != c["esi"].as_u64().unwrap() {
                        mism.push("payload id parsed differently from RFC 6330 3.2".into());
                    }
                    if id.serialize() != arr { mism.push("payload id re-serialisation differs".into()); }
                }
                "otibuf" => {
                    let buf = bytes_of(&c["buf"]);
                    let mut arr = [0u8; 12];
                    arr.copy_from_slice(&buf);
                    let o = Oti::deserialize(&arr);
                    got = json!({"de": oti_json(&o), "reser": o.serialize().to_vec()});
                    if o.transfer_length() != lv(&c["f"]) || o.symbol_size() as u64 != c["t"].as_u64().unwrap()
                        || o.source_blocks() as u64 != c["z"].as_u64().unwrap() || o.sub_blocks() as u64 != c["n"].as_u64().unwrap()
                        || o.symbol_alignment() as u64 != c["al"].as_u64().unwrap() {
                        mism.push("OTI parsed differently from RFC 6330 3.3.2/3.3.3".into());
                    }
                    if o.serialize().to_vec() != bytes_of(&c["reser"]) { mism.push("OTI re-serialisation differs (reserved byte excepted)".into()); }
                    let again = Oti::deserialize(&o.serialize());
                    if again != o { mism.push("OTI does not round-trip".into()); }
                }
                "otinew" => {
                    let (f, t, z, n, al) = (lv(&c["f"]), c["t"].as_u64().unwrap() as u16, c["z"].as_u64().unwrap() as u8,
                                            c["n"].as_u64().unwrap() as u16, c["al"].as_u64().unwrap() as u8);
                    match try_new(f, t, z, n, al) {
                        Ok(o) => {
                            got = json!({"ser": o.serialize().to_vec()});
                            if o.serialize().to_vec() != bytes_of(&c["bytes"]) { mism.push("OTI bytes differ from RFC 6330 3.3.2/3.3.3".into()); }
                            if Oti::deserialize(&o.serialize()) != o { mism.push("OTI does not round-trip".into()); }
                        }
                        Err(m) => mism.push(format!("constructor refused an admissible OTI: {m}")),
                    }
                }
                "pkt" => {
                    let (sbn, esi) = (c["sbn"].as_u64().unwrap() as u8, c["esi"].as_u64().unwrap() as u32);
                    let payload = bytes_of(&c["payload"]);
                    let pk = raptorq::EncodingPacket::new(raptorq::PayloadId::new(sbn, esi), payload.clone());
                    let ser = pk.serialize();
                    got = json!({"ser": ser});
                    if ser != bytes_of(&c["bytes"]) { mism.push("packet bytes differ from RFC 6330 4.4.2".into()); }
                    let de = raptorq::EncodingPacket::deserialize(&ser);
                    if de != pk || de.data() != &payload[..] || de.payload_id().encoding_symbol_id() != esi { mism.push("packet does not round-trip".into()); }
                }
                "pktlong" => {
                    let (sbn, esi) = (c["sbn"].as_u64().unwrap() as u8, c["esi"].as_u64().unwrap() as u32);
                    let len = c["len"].as_u64().unwrap() as usize;
                    let payload: Vec<u8> = (1..=len).map(|i| ((i * 37 + len) % 256) as u8).collect();
                    let pk = raptorq::EncodingPacket::new(raptorq::PayloadId::new(sbn, esi), payload.clone());
                    let ser = pk.serialize();
                    got = json!({"ser_len": ser.len(), "head": ser[..4.min(ser.len())].to_vec()});
                    if ser.len() != c["total"].as_u64().unwrap() as usize || ser[..4] != bytes_of(&c["head"])[..] || ser[4..] != payload[..] {
                        mism.push("packet bytes differ from RFC 6330 4.4.2 (long payload)".into());
                    }
                    let de = raptorq::EncodingPacket::deserialize(&ser);
                    if de != pk || de.data() != &payload[..] || de.payload_id().encoding_symbol_id() != esi || de.payload_id().source_block_number() != sbn {
                        mism.push(format!("packet with a payload of {len} octets does not round-trip (parsed payload: {} octets)", de.data().len()));
                    }
                    if de.serialize() != ser { mism.push("re-serialising the parsed long packet does not reproduce the buffer".into()); }
                }
                other => panic!("unknown wire case {other}"),
            }
        }
        "offsets" => {
            // block boundaries of a very large object: an untouched zero allocation of F octets (never read) is enough
            let (t, kt, z, r) = (c["t"].as_u64().unwrap(), c["kt"].as_u64().unwrap(), c["z"].as_u64().unwrap(), c["r"].as_u64().unwrap());
            let f = (kt - 1) * t + r;
            let want: Vec<(u64, u64)> = c["blocks"].as_array().unwrap().iter().map(|b| (b[0].as_u64().unwrap() * t, b[1].as_u64().unwrap() * t)).collect();
            let res = catch(move || {
                let data = vec![0u8; f as usize];
                let oti = Oti::new(f, t as u16, z as u8, 1, 1);
                raptorq::calculate_block_offsets(&data, &oti)
            });
            match res {
                Ok(v) => {
                    let g: Vec<(u64, u64)> = v.iter().map(|x| (x.0 as u64, x.1 as u64)).collect();
                    got = json!({"offsets": g.iter().take(8).collect::<Vec<_>>(), "n": g.len()});
                    // a block may be reported up to its padded end or clipped at the end of the object: both describe the same octets
                    let same = g.len() == want.len() && g.iter().zip(want.iter()).all(|(a, b)| a.0 == b.0 && (a.1 == b.1 || a.1 == b.1.min(f)));
                    if !same {
                        let first = g.iter().zip(want.iter()).position(|(a, b)| a != b);
                        mism.push(format!("source block boundaries differ from Partition[Kt, Z] of RFC 6330 4.4.1.2 (F = {f}, first difference at block {first:?}: {:?} vs {:?})",
                                          first.map(|i| g[i]), first.map(|i| want[i])));
                    }
                }
                Err(m) => mism.push(format!("calculate_block_offsets panicked on a valid configuration (F = {f}): {m}")),
            }
        }
        "layout" => {
            let f = c["f"].as_u64().unwrap();
            let (t, z, nn, al) = (c["t"].as_u64().unwrap() as u16, c["z"].as_u64().unwrap() as u8,
                                  c["n"].as_u64().unwrap() as u16, c["al"].as_u64().unwrap() as u8);
            let data: Vec<u8> = (0..f).map(|i| ((i * 37 + (i / 251) * 7 + 11) % 256) as u8).collect();
            let want: Vec<(u8, u32, Vec<u8>)> = c["packets"].as_array().unwrap().iter().map(|p| {
                (p[0].as_u64().unwrap() as u8, p[1].as_u64().unwrap() as u32,
                 p[2].as_array().unwrap().iter().map(|b| b.as_u64().unwrap() as u8).collect())
            }).collect();
            let d2 = data.clone();
            let r = catch(move || {
                let oti = Oti::new(f, t, z, nn, al);
                let enc = raptorq::Encoder::new(&d2, oti);
                let pk = enc.get_encoded_packets(0);
                let listed: Vec<(u8, u32, Vec<u8>)> = pk.iter().map(|p| (p.payload_id().source_block_number(), p.payload_id().encoding_symbol_id(), p.data().to_vec())).collect();
                // decoder inverts the layout: deliver in reverse order through the one-shot interface
                let mut dec = raptorq::Decoder::new(oti);
                let mut res = None;
                for p in pk.iter().rev() {
                    res = dec.decode(p.clone());
                }
                // and block by block through the block decoders with the block lengths the decoder derives
                (listed, res)
            });
            match r {
                Ok((listed, res)) => {
                    if listed != want {
                        let first = listed.iter().zip(want.iter()).position(|(a, b)| a != b);
                        mism.push(format!("source packet list differs from RFC 6330 4.4.1.2 (first difference at packet {:?}, {} vs {} packets)", first, listed.len(), want.len()));
                        got = json!({"packets": listed.iter().map(|p| json!([p.0, p.1, p.2])).collect::<Vec<_>>()});
                    }
                    if res.as_deref() != Some(&data[..]) {
                        mism.push("decoder does not invert the layout (wrong bytes or length)".into());
                    }
                }
                Err(m) => mism.push(format!("panic: {m}")),
            }
        }
        other => panic!("unknown case kind {other}"),
    }
    (got, mism)
}

pub fn replay(o: &Opts) {
    crate::util::quiet_panics();
    let input = BufReader::new(std::fs::File::open(o.str("in", "cases.ndjson")).unwrap());
    let mut out = Trace::create(&o.str("out", "results.ndjson"));
    let mut n = 0usize;
    let mut bad = 0usize;
    for line in input.lines() {
        let line = line.unwrap();
        if line.trim().is_empty() {
            continue;
        }
        let c: Value = serde_json::from_str(&line).unwrap();
        n += 1;
        // a panic anywhere inside one case is a result of that case, not the end of the replay
        let (got, mism) = match catch(std::panic::AssertUnwindSafe(|| eval_case(&c))) {
            Ok(r) => r,
            Err(m) => (json!({"panic": m}), vec![format!("panic: {m}")]),
        };
        if !mism.is_empty() {
            bad += 1;
            out.emit(json!({"case": c, "got": got, "mismatch": mism}));
        }
    }
    out.finish();
    println!("cases={n} mismatches={bad}");
}

pub fn log(o: &Opts) {
    crate::util::quiet_panics();
    let mut tr = Trace::create(&o.str("out", "obj.ndjson"));
    let seed = o.u64("seed", 1);
    let mut rng = StdRng::seed_from_u64(seed);
    let what = o.str("what", "accept");
    let n = o.usize("n", 1000);
    tr.emit(json!({"ev":"meta","what":what,"seed":seed}));
    match what.as_str() {
        "accept" => {
            for i in 0..n {
                let t: u16 = match i % 4 { 0 => rng.random_range(1..=16), 1 => rng.random_range(1..=65535), 2 => 1, _ => rng.random_range(1..=2048) };
                let z: u8 = if i % 3 == 0 { rng.random_range(1..=255) } else { rng.random_range(1..=4) };
                let al: u8 = match i % 5 { 0 => 1, 1 => rng.random_range(1..=255), 2 => 8, 3 => 4, _ => rng.random_range(1..=16) };
                let nn: u16 = rng.random_range(1..=300);
                // F: around the block-size limit, around multiples of 2^32, or uniform in 40 bits
                let lim = 56403u64 * z as u64 * t as u64;
                let f: u64 = match i % 6 {
                    0 => lim.saturating_sub(rng.random_range(0..3)),
                    1 => lim + rng.random_range(1..=(t as u64 * 2)),
                    2 => (rng.random_range(1..=200u64) << 32) * t as u64 + rng.random_range(0..=(lim.min(1 << 20))),
                    3 => rng.random_range(0..(1u64 << 40)),
                    4 => 942574504275u64 - rng.random_range(0..3) + rng.random_range(0..3),
                    _ => rng.random_range(1..=lim.max(2)),
                };
                let r = try_new(f, t, z, nn, al);
                let mut ev = json!({"ev":"accept","f":limbs(f),"t":t,"z":z,"n":nn,"al":al});
                match r {
                    Ok(oti) => { ev["accepted"] = json!(true); ev["oti"] = oti_json(&oti); }
                    Err(m) => { ev["accepted"] = json!(false); ev["msg"] = json!(m); }
                }
                tr.emit(ev);
            }
        }
        "derive" => {
            let kps: Vec<u64> = raptorq::verif::SYSTEMATIC_INDICES_AND_PARAMETERS.iter().map(|r| r.0 as u64).collect();
            for i in 0..n {
                // very large packet sizes (N_max up to 1023) are expensive for the oracle: 2% of the cases
                let p: u16 = match i % 5 { 0 => rng.random_range(1..=63), 1 => rng.random_range(64..=2048), 2 => 1024, 3 => if i % 50 == 3 { rng.random_range(64..=65535) } else { rng.random_range(64..=4096) }, _ => rng.random_range(8..=1500) };
                let al: u64 = if p >= 64 { 8 } else { 1 };
                let t = (p as u64) - (p as u64 % al);
                let nmax = (t / (al * al)).max(1);
                let nn = rng.random_range(1..=nmax);
                let unit = al * t.div_ceil(al * nn);
                let kp = kps[rng.random_range(0..kps.len())];
                let ws: u64 = match i % 6 {
                    0 => kp * unit - rng.random_range(0..2),
                    1 => rng.random_range(1..=u64::MAX),
                    2 => 10 * 1024 * 1024,
                    3 => 1u64 << rng.random_range(4..64),
                    4 => (rng.random_range(1..4u64) << 32) * unit + rng.random_range(0..60000) * unit,
                    _ => rng.random_range(1..=(1u64 << 28)),
                };
                let klg = kps[rng.random_range(0..kps.len())];
                let f: u64 = match i % 4 {
                    0 => rng.random_range(1..=(1u64 << 20)),
                    1 => (klg * t * rng.random_range(1..=255u64)).saturating_sub(rng.random_range(0..2)).max(1),
                    2 => rng.random_range(1..=(56403u64 * 255 * t)),
                    _ => rng.random_range(1..=100 * t),
                };
                let r = catch(move || raptorq::verif::derive_parameters(f, p, ws));
                let mut ev = json!({"ev":"derive","f":limbs(f),"p":p,"ws":limbs(ws)});
                match r {
                    Ok(oti) => { ev["res"] = json!("ok"); ev["oti"] = oti_json(&oti); }
                    Err(m) => { ev["res"] = json!("panic"); ev["msg"] = json!(m); }
                }
                tr.emit(ev);
            }
        }
        "wire" => {
            for i in 0..n {
                match i % 6 {
                    0 => {
                        let (sbn, esi): (u8, u32) = (rng.random(), rng.random_range(0..1 << 24));
                        let id = raptorq::PayloadId::new(sbn, esi);
                        let ser = id.serialize();
                        let de = raptorq::PayloadId::deserialize(&ser);
                        tr.emit(json!({"ev":"wire","what":"pid","sbn":sbn,"esi":esi,"ser":ser.to_vec(),
                                       "de":[de.source_block_number(), de.encoding_symbol_id()]}));
                    }
                    1 => {
                        let buf: [u8; 4] = rng.random();
                        let id = raptorq::PayloadId::deserialize(&buf);
                        tr.emit(json!({"ev":"wire","what":"pidbuf","buf":buf.to_vec(),
                                       "de":[id.source_block_number(), id.encoding_symbol_id()],"reser":id.serialize().to_vec()}));
                    }
                    2 => {
                        // a valid OTI through the constructor
                        let t: u16 = rng.random_range(1..=65535);
                        let z: u8 = rng.random_range(1..=255);
                        let f: u64 = rng.random_range(1..=(56403u64 * z as u64 * t as u64).min(942574504275));
                        let n: u16 = rng.random();
                        let o = Oti::new(f, t, z, n, 1);
                        let de = Oti::deserialize(&o.serialize());
                        tr.emit(json!({"ev":"wire","what":"oti","f":limbs(f),"t":t,"z":z,"n":n,"al":1,
                                       "ser":o.serialize().to_vec(),"de":oti_json(&de)}));
                    }
                    3 => {
                        let buf: [u8; 12] = rng.random();
                        let o = Oti::deserialize(&buf);
                        tr.emit(json!({"ev":"wire","what":"otibuf","buf":buf.to_vec(),"de":oti_json(&o),"reser":o.serialize().to_vec()}));
                    }
                    4 => {
                        let (sbn, esi): (u8, u32) = (rng.random(), rng.random_range(0..1 << 24));
                        let len = rng.random_range(0..70usize);
                        let payload: Vec<u8> = (0..len).map(|_| rng.random()).collect();
                        let pk = raptorq::EncodingPacket::new(raptorq::PayloadId::new(sbn, esi), payload.clone());
                        let ser = pk.serialize();
                        let de = raptorq::EncodingPacket::deserialize(&ser);
                        tr.emit(json!({"ev":"wire","what":"pkt","sbn":sbn,"esi":esi,"payload":payload,"ser":ser,
                                       "de":[de.payload_id().source_block_number(), de.payload_id().encoding_symbol_id(), de.data()]}));
                    }
                    _ => {
                        let len = rng.random_range(4..74usize);
                        let buf: Vec<u8> = (0..len).map(|_| rng.random()).collect();
                        let de = raptorq::EncodingPacket::deserialize(&buf);
                        tr.emit(json!({"ev":"wire","what":"pktbuf","buf":buf,
                                       "de":[de.payload_id().source_block_number(), de.payload_id().encoding_symbol_id(), de.data()],
                                       "reser":de.serialize()}));
                    }
                }
            }
        }
        other => panic!("unknown objlog kind {other}"),
    }
    tr.emit(json!({"ev":"end"}));
    println!("events={}", tr.finish());
}
